"""Program index: parse every module of the repository, resolve imports,
classes, MROs, methods and trivial getters.  Pure `ast`; nothing is imported.
"""
import ast
import os
import warnings

REPO = os.environ.get('VERIF_REPO', '/repo')


class AnalysisError(Exception):
    """The analysed code is not in a shape the checker understands, or an
    anchor is missing.  Reported as ANALYSIS-ERROR (exit 2), never as a
    violation and never as a pass."""


class FuncInfo:
    def __init__(self, module, qualname, node, cls=None, parent=None):
        self.module = module
        self.qualname = qualname
        self.node = node
        self.cls = cls
        self.parent = parent

    @property
    def site(self):
        return '%s::%s' % (self.module.relpath, self.qualname)

    @property
    def name(self):
        return self.node.name

    def loc(self, node=None):
        n = node if node is not None else self.node
        return '%s:%d' % (self.module.relpath, getattr(n, 'lineno', 0))

    def params(self):
        a = self.node.args
        return [x.arg for x in a.posonlyargs + a.args]

    def decorators(self):
        return [ast.unparse(d) for d in self.node.decorator_list]

    def body(self):
        """Statements without the docstring."""
        b = self.node.body
        if b and isinstance(b[0], ast.Expr) and isinstance(
                getattr(b[0], 'value', None), ast.Constant) and isinstance(
                b[0].value.value, str):
            return b[1:]
        return b

    def __repr__(self):
        return '<Func %s>' % self.site


class ClassInfo:
    def __init__(self, module, name, node):
        self.module = module
        self.name = name
        self.node = node
        self.methods = {}      # name -> [FuncInfo] (property getter/setter share a name)
        self.base_exprs = [ast.unparse(b) for b in node.bases]
        self.bases = []        # resolved ClassInfo or str
        self.class_attrs = {}  # simple class-level assignments

    @property
    def site(self):
        return '%s::%s' % (self.module.relpath, self.name)

    def __repr__(self):
        return '<Class %s>' % self.site


class ModuleInfo:
    def __init__(self, relpath, modname, source, tree, is_pkg):
        self.relpath = relpath
        self.modname = modname
        self.source = source
        self.tree = tree
        self.is_pkg = is_pkg
        self.imports = {}      # local name -> (module name, attr or None)
        self.star_imports = []  # module names
        self.functions = {}    # name -> FuncInfo (module level)
        self.classes = {}      # name -> ClassInfo
        self.aliases = {}      # name -> ast expr (module-level simple assignment)
        self.top_bound = set()  # names bound at module top level (any way)


def _modname(relpath):
    p = relpath[:-3].split('/')
    if p[-1] == '__init__':
        p = p[:-1]
    return '.'.join(p)


class Index:
    def __init__(self, root=None, overrides=None, package='taurex', base=None):
        self.root = root or REPO
        self.overrides = overrides or {}
        self.base = base
        self.package = package
        self.modules = {}       # relpath -> ModuleInfo
        self.by_modname = {}
        self.parse_errors = {}
        self._load()
        self._link()

    # ------------------------------------------------------------------
    def _load(self):
        base = os.path.join(self.root, self.package)
        if not os.path.isdir(base):
            raise AnalysisError('package directory %s not found' % base)
        paths = []
        for d, dirs, files in os.walk(base):
            dirs[:] = sorted(x for x in dirs if x != '__pycache__')
            for f in sorted(files):
                if f.endswith('.py'):
                    paths.append(os.path.relpath(os.path.join(d, f), self.root))
        for rel in set(self.overrides) - set(paths):
            if rel.endswith('.py') and rel.startswith(self.package + '/'):
                paths.append(rel)
        for rel in sorted(paths):
            if self.base is not None and rel not in self.overrides and \
                    rel in self.base.modules:
                # re-scan from the already parsed tree (ModuleInfo holds
                # per-index class links, so it is rebuilt, the parse is shared)
                b = self.base.modules[rel]
                m = ModuleInfo(rel, b.modname, b.source, b.tree, b.is_pkg)
                self.modules[rel] = m
                self.by_modname[m.modname] = m
                self._scan_module(m)
                continue
            if rel in self.overrides:
                src = self.overrides[rel]
            else:
                with open(os.path.join(self.root, rel), encoding='utf-8',
                          errors='replace') as fh:
                    src = fh.read()
            try:
                with warnings.catch_warnings():
                    warnings.simplefilter('ignore')
                    tree = ast.parse(src, filename=rel)
                from .normalise import normalise
                normalise(tree)
            except SyntaxError as e:
                self.parse_errors[rel] = str(e)
                continue
            m = ModuleInfo(rel, _modname(rel), src, tree,
                           rel.endswith('__init__.py'))
            self.modules[rel] = m
            self.by_modname[m.modname] = m
            self._scan_module(m)

    def _abs_module(self, m, node):
        """Absolute module name of an ImportFrom."""
        if node.level == 0:
            return node.module or ''
        parts = m.modname.split('.')
        if not m.is_pkg:
            parts = parts[:-1]
        if node.level > 1:
            parts = parts[:-(node.level - 1)]
        if node.module:
            parts = parts + node.module.split('.')
        return '.'.join(parts)

    def _scan_module(self, m):
        for node in ast.walk(m.tree):
            if isinstance(node, ast.Import):
                for a in node.names:
                    if a.asname:
                        m.imports.setdefault(a.asname, (a.name, None))
                    else:
                        top = a.name.split('.')[0]
                        m.imports.setdefault(top, (top, None))
            elif isinstance(node, ast.ImportFrom):
                mod = self._abs_module(m, node)
                for a in node.names:
                    if a.name == '*':
                        m.star_imports.append(mod)
                    else:
                        m.imports.setdefault(a.asname or a.name, (mod, a.name))
        # top-level bindings (including those under if/try at module level)
        def top_stmts(stmts):
            for s in stmts:
                yield s
                if isinstance(s, ast.If):
                    yield from top_stmts(s.body)
                    yield from top_stmts(s.orelse)
                elif isinstance(s, ast.Try):
                    yield from top_stmts(s.body)
                    for h in s.handlers:
                        yield from top_stmts(h.body)
                    yield from top_stmts(s.orelse)
                    yield from top_stmts(s.finalbody)
        for s in top_stmts(m.tree.body):
            if isinstance(s, (ast.FunctionDef, ast.AsyncFunctionDef)):
                m.functions[s.name] = FuncInfo(m, s.name, s)
                m.top_bound.add(s.name)
            elif isinstance(s, ast.ClassDef):
                c = ClassInfo(m, s.name, s)
                m.classes[s.name] = c
                m.top_bound.add(s.name)
                for b in s.body:
                    if isinstance(b, (ast.FunctionDef, ast.AsyncFunctionDef)):
                        c.methods.setdefault(b.name, []).append(
                            FuncInfo(m, '%s.%s' % (s.name, b.name), b, cls=c))
                    elif isinstance(b, ast.Assign) and len(b.targets) == 1 \
                            and isinstance(b.targets[0], ast.Name):
                        c.class_attrs[b.targets[0].id] = b.value
            elif isinstance(s, ast.Assign):
                for t in s.targets:
                    if isinstance(t, ast.Name):
                        m.aliases[t.id] = s.value
                        m.top_bound.add(t.id)
            elif isinstance(s, ast.Import):
                for a in s.names:
                    m.top_bound.add(a.asname or a.name.split('.')[0])
            elif isinstance(s, ast.ImportFrom):
                for a in s.names:
                    if a.name != '*':
                        m.top_bound.add(a.asname or a.name)

    def _link(self):
        for m in self.modules.values():
            for c in m.classes.values():
                c.bases = []
                for b in c.node.bases:
                    r = self.resolve_expr(m, b)
                    c.bases.append(r if isinstance(r, ClassInfo)
                                   else ast.unparse(b))

    # ------------------------------------------------------------------
    def module(self, relpath):
        if relpath in self.parse_errors:
            raise AnalysisError('%s does not parse: %s' %
                                (relpath, self.parse_errors[relpath]))
        if relpath not in self.modules:
            raise AnalysisError('module %s not found' % relpath)
        return self.modules[relpath]

    def resolve_name(self, m, name, _seen=None):
        """Resolve a module-level name to ClassInfo / FuncInfo / ('module',
        modname) / ('ext', dotted) / None, following imports, re-exports and
        simple aliases."""
        _seen = _seen or set()
        key = (m.relpath, name)
        if key in _seen:
            return None
        _seen.add(key)
        if name in m.classes:
            return m.classes[name]
        if name in m.functions:
            return m.functions[name]
        if name in m.aliases and isinstance(m.aliases[name], ast.Name) \
                and m.aliases[name].id != name:
            return self.resolve_name(m, m.aliases[name].id, _seen)
        if name in m.imports:
            mod, attr = m.imports[name]
            if attr is None:
                if mod in self.by_modname:
                    return ('module', mod)
                return ('ext', mod)
            full = mod + '.' + attr
            if full in self.by_modname:
                return ('module', full)
            if mod in self.by_modname:
                return self.resolve_name(self.by_modname[mod], attr, _seen)
            return ('ext', full)
        for mod in m.star_imports:
            if mod in self.by_modname:
                r = self.resolve_name(self.by_modname[mod], name, _seen)
                if r is not None:
                    return r
        return None

    def resolve_expr(self, m, expr):
        """Resolve Name / dotted Attribute expression at module scope."""
        if isinstance(expr, ast.Name):
            return self.resolve_name(m, expr.id)
        if isinstance(expr, ast.Attribute):
            base = self.resolve_expr(m, expr.value)
            if isinstance(base, tuple) and base[0] == 'module':
                sub = base[1] + '.' + expr.attr
                if sub in self.by_modname:
                    return ('module', sub)
                return self.resolve_name(self.by_modname[base[1]], expr.attr)
            if isinstance(base, tuple) and base[0] == 'ext':
                return ('ext', base[1] + '.' + expr.attr)
        return None

    # ------------------------------------------------------------------
    def cls(self, site):
        """'path::Class' -> ClassInfo"""
        path, _, name = site.partition('::')
        m = self.module(path)
        if name not in m.classes:
            # moved to another module and imported back under its name
            r = self.resolve_name(m, name)
            if isinstance(r, ClassInfo):
                return r
            raise AnalysisError('class %s not found' % site)
        return m.classes[name]

    def find_class(self, name):
        """Unique class with this simple name."""
        hits = [c for m in self.modules.values() for c in m.classes.values()
                if c.name == name]
        if len(hits) != 1:
            raise AnalysisError('class name %s resolves to %d classes' %
                                (name, len(hits)))
        return hits[0]

    def func(self, site, which=0):
        """'path::f', 'path::C.m', 'path::C.m.closure' -> FuncInfo.
        `which` selects among same-named methods (getter=0, setter=1)."""
        path, _, qual = site.partition('::')
        m = self.module(path)
        parts = qual.split('.')
        cur = None
        cls = None
        if parts[0] in m.classes:
            cls = m.classes[parts[0]]
            if len(parts) == 1:
                raise AnalysisError('%s is a class, not a function' % site)
            lst = cls.methods.get(parts[1])
            if not lst:
                raise AnalysisError('anchor %s not found' % site)
            if isinstance(which, str):
                sel = [f for f in lst if any(which in d for d in f.decorators())]
                if not sel:
                    raise AnalysisError('anchor %s [%s] not found' % (site, which))
                cur = sel[0]
            else:
                if which >= len(lst):
                    raise AnalysisError('anchor %s #%d not found' % (site, which))
                cur = lst[which]
            rest = parts[2:]
        elif parts[0] in m.functions:
            cur = m.functions[parts[0]]
            rest = parts[1:]
        else:
            # the anchored function / class has been moved to another module and is imported back under its name
            r = self.resolve_name(m, parts[0])
            if isinstance(r, (ClassInfo, FuncInfo)) and r.module is not m:
                rtop = r.name if isinstance(r, ClassInfo) else r.qualname
                return self.func('%s::%s' % (r.module.relpath, '.'.join([rtop] + parts[1:])), which)
            raise AnalysisError('anchor %s not found' % site)
        for p in rest:
            nxt = None
            for n in ast.walk(cur.node):
                if isinstance(n, (ast.FunctionDef, ast.AsyncFunctionDef)) \
                        and n.name == p and n is not cur.node:
                    nxt = n
                    break
            if nxt is None:
                raise AnalysisError('anchor %s: nested %s not found' % (site, p))
            cur = FuncInfo(m, cur.qualname + '.' + p, nxt, cls=cls, parent=cur)
        return cur

    def has_func(self, site):
        try:
            self.func(site)
            return True
        except AnalysisError:
            return False

    # ------------------------------------------------------------------
    def mro(self, c):
        """C3 linearisation over resolvable bases (externals dropped)."""
        def merge(seqs):
            res = []
            seqs = [list(s) for s in seqs if s]
            while seqs:
                for s in seqs:
                    h = s[0]
                    if not any(h in t[1:] for t in seqs):
                        break
                else:
                    # inconsistent: fall back to depth-first order
                    h = seqs[0][0]
                res.append(h)
                seqs = [[x for x in s if x is not h] for s in seqs]
                seqs = [s for s in seqs if s]
            return res
        bases = [b for b in c.bases if isinstance(b, ClassInfo)]
        return [c] + merge([self.mro(b) for b in bases] + [bases])

    def lookup_method(self, c, name, which=0, after=None):
        """Method `name` along the MRO of c; `after` = start after that class
        (super())."""
        chain = self.mro(c)
        if after is not None:
            chain = chain[chain.index(after) + 1:]
        for k in chain:
            if name in k.methods:
                lst = k.methods[name]
                return lst[min(which, len(lst) - 1)]
        return None

    def all_classes(self):
        for m in self.modules.values():
            for c in m.classes.values():
                yield c

    def subclasses(self, base, strict=False):
        out = []
        for c in self.all_classes():
            chain = self.mro(c)
            if base in chain and not (strict and c is base):
                out.append(c)
        return sorted(out, key=lambda c: c.site)

    def is_subclass(self, c, base):
        return base in self.mro(c)

    def implementations(self, base, method):
        """All definitions of `method` in the hierarchy rooted at base."""
        out = []
        for c in self.subclasses(base):
            for f in c.methods.get(method, []):
                out.append(f)
        return out

    # ------------------------------------------------------------------
    def trivial_getter(self, c, name):
        """If `name` is a @property (or fitparam/derivedparam getter) on c's
        MRO whose body is `return self.<attr>`, return attr, else None."""
        f = self.lookup_method(c, name)
        if f is None:
            return None
        decs = f.decorators()
        if not any(d == 'property' or d.startswith('fitparam')
                   or d.startswith('derivedparam') for d in decs):
            return None
        # statements without effect on the value (logging, assignments to locals that are not returned) do not
        # make a getter less trivial
        body = [st for st in f.body() if not (
            (isinstance(st, ast.Expr) and isinstance(st.value, ast.Call) and isinstance(st.value.func, ast.Attribute)
             and st.value.func.attr in ('debug', 'info', 'warning', 'error', 'critical')) or
            (isinstance(st, ast.Assign) and all(isinstance(t, ast.Name) for t in st.targets) and
             isinstance(st.value, ast.Constant)) or isinstance(st, ast.Pass))]
        if len(body) == 1 and isinstance(body[0], ast.Return) \
                and isinstance(body[0].value, ast.Attribute) \
                and isinstance(body[0].value.value, ast.Name) \
                and body[0].value.value.id == 'self':
            return body[0].value.attr
        return None

    def getter_chain(self, c, name):
        """If `name` is a @property on c's MRO whose body is `return self.a.b[.c]` (an attribute of a component),
        return ['a', 'b', ...], else None."""
        f = self.lookup_method(c, name)
        if f is None or 'property' not in f.decorators():
            return None
        body = [st for st in f.body() if not (
            (isinstance(st, ast.Expr) and isinstance(st.value, (ast.Call, ast.Constant))) or isinstance(st, ast.Pass))]
        if len(body) != 1 or not isinstance(body[0], ast.Return) or not isinstance(body[0].value, ast.Attribute):
            return None
        parts = []
        n = body[0].value
        while isinstance(n, ast.Attribute):
            parts.append(n.attr)
            n = n.value
        if not (isinstance(n, ast.Name) and n.id == 'self') or len(parts) < 2:
            return None
        return list(reversed(parts))

    def functions_in(self, relpath):
        m = self.module(relpath)
        out = list(m.functions.values())
        for c in m.classes.values():
            for lst in c.methods.values():
                out.extend(lst)
        return out

    def all_functions(self):
        for rel in sorted(self.modules):
            for f in self.functions_in(rel):
                yield f

    def stats(self):
        nf = sum(1 for _ in self.all_functions())
        nl = sum(m.source.count('\n') for m in self.modules.values())
        return {'files': len(self.modules), 'functions': nf, 'lines': nl,
                'classes': sum(len(m.classes) for m in self.modules.values())}
