"""Expression IR and rational normal form (DESIGN 2.4).

A value is a rational function: a pair of multivariate polynomials with
Fraction coefficients over interned *atoms*.  Two values are equal when the
cross-multiplied difference is the zero polynomial.  Nothing is evaluated
numerically and no solver is involved.
"""
import ast
from fractions import Fraction

ONE = ()  # the empty monomial


# ----------------------------------------------------------------------------
# polynomials: dict {monomial: Fraction}, monomial = tuple(sorted((atom, exp)))
def p_const(c):
    c = Fraction(c)
    return {ONE: c} if c != 0 else {}


def p_atom(a):
    return {((a, 1),): Fraction(1)}


def p_add(a, b, sign=1):
    r = dict(a)
    for m, c in b.items():
        v = r.get(m, 0) + sign * c
        if v == 0:
            r.pop(m, None)
        else:
            r[m] = v
    return r


def m_mul(m1, m2):
    if not m1:
        return m2
    if not m2:
        return m1
    d = dict(m1)
    for a, e in m2:
        d[a] = d.get(a, 0) + e
    return tuple(sorted((a, e) for a, e in d.items() if e != 0))


def p_mul(a, b):
    r = {}
    for m1, c1 in a.items():
        for m2, c2 in b.items():
            m = m_mul(m1, m2)
            v = r.get(m, 0) + c1 * c2
            if v == 0:
                r.pop(m, None)
            else:
                r[m] = v
    return r


def mono_key(m):
    """degree-lexicographic monomial order (multiplicative, so the ratio of
    leading coefficients of num/den does not depend on the representation)"""
    word = []
    for a, e in m:
        word.extend([a] * e)
    return (len(word), word)


def p_is_const(p):
    return all(m == ONE for m in p)


class Slice:
    """A subscript slice lo:hi:step, members are RF or None."""
    def __init__(self, lo, hi, step):
        self.lo, self.hi, self.step = lo, hi, step

    def parts(self):
        return (self.lo, self.hi, self.step)

    def is_full(self):
        return self.lo is None and self.hi is None and self.step is None


class RF:
    """Rational function num/den."""
    __slots__ = ('num', 'den', 'tab')

    def __init__(self, tab, num, den=None):
        self.tab = tab
        self.num = num
        self.den = den if den is not None else p_const(1)
        # cheap normalisation: constant denominator folded into numerator
        if p_is_const(self.den) and self.den:
            c = self.den[ONE]
            if c != 1:
                self.num = {m: v / c for m, v in self.num.items()}
                self.den = p_const(1)
        # cancel a common monomial factor (keeps forms small)
        self._cancel_monomial()

    def _cancel_monomial(self):
        if not self.num or len(self.den) != 1:
            return
        (dm, dc), = self.den.items()
        if not dm:
            return
        # common atom powers across all numerator monomials
        common = dict(dm)
        for m in self.num:
            md = dict(m)
            for a in list(common):
                common[a] = min(common[a], md.get(a, 0))
                if common[a] <= 0:
                    del common[a]
            if not common:
                return
        inv = tuple(sorted((a, -e) for a, e in common.items()))
        self.num = {m_mul(m, inv): c for m, c in self.num.items()}
        self.den = {m_mul(dm, inv): dc}
        if p_is_const(self.den):
            c = self.den[ONE]
            self.num = {m: v / c for m, v in self.num.items()}
            self.den = p_const(1)

    # arithmetic -------------------------------------------------------
    def _c(self, o):
        if isinstance(o, RF):
            return o
        return RF(self.tab, p_const(o))

    def __add__(self, o):
        o = self._c(o)
        if self.den == o.den:
            return RF(self.tab, p_add(self.num, o.num), self.den)
        return RF(self.tab, p_add(p_mul(self.num, o.den), p_mul(o.num, self.den)),
                  p_mul(self.den, o.den))

    __radd__ = __add__

    def __neg__(self):
        return RF(self.tab, {m: -c for m, c in self.num.items()}, self.den)

    def __sub__(self, o):
        return self + (-self._c(o))

    def __rsub__(self, o):
        return self._c(o) - self

    def __mul__(self, o):
        o = self._c(o)
        return RF(self.tab, p_mul(self.num, o.num), p_mul(self.den, o.den))

    __rmul__ = __mul__

    def inv(self):
        if not self.num:
            raise ZeroDivisionError('division by the zero expression')
        return RF(self.tab, self.den, self.num)

    def __truediv__(self, o):
        return self * self._c(o).inv()

    def __rtruediv__(self, o):
        return self._c(o) * self.inv()

    def ipow(self, n):
        if n < 0:
            return self.inv().ipow(-n)
        r = RF(self.tab, p_const(1))
        b = self
        while n:
            if n & 1:
                r = r * b
            b = b * b
            n >>= 1
        return r

    # queries ----------------------------------------------------------
    def is_zero(self):
        return not self.tab.reduce(self).num

    def const(self):
        """Fraction if this is a constant else None."""
        if p_is_const(self.num) and p_is_const(self.den):
            return self.num.get(ONE, Fraction(0)) / self.den[ONE]
        return None

    def single_atom(self):
        """atom id if this is exactly 1*atom^1, else None"""
        if self.den == p_const(1) and len(self.num) == 1:
            (m, c), = self.num.items()
            if c == 1 and len(m) == 1 and m[0][1] == 1:
                return m[0][0]
        return None

    def atoms(self):
        s = set()
        for p in (self.num, self.den):
            for m in p:
                for a, _ in m:
                    s.add(a)
        return s

    def all_atoms(self):
        """Transitive closure of atoms (through atom arguments)."""
        seen = set()
        todo = list(self.atoms())
        while todo:
            a = todo.pop()
            if a in seen:
                continue
            seen.add(a)
            for arg in self.tab.atoms[a].args:
                for r in _rfs_in(arg):
                    todo.extend(r.atoms())
        return seen

    def mentions(self, pred):
        """True if any (transitive) atom satisfies pred(Atom)."""
        return any(pred(self.tab.atoms[a]) for a in self.all_atoms())

    def __repr__(self):
        return self.tab.fmt(self)


def _rfs_in(arg):
    if isinstance(arg, RF):
        yield arg
    elif isinstance(arg, Slice):
        for p in arg.parts():
            if isinstance(p, RF):
                yield p
    elif isinstance(arg, tuple):
        for x in arg:
            yield from _rfs_in(x)


class Atom:
    __slots__ = ('head', 'args', 'extra', 'node')

    def __init__(self, head, args=(), extra=None, node=None):
        self.head = head
        self.args = tuple(args)
        self.extra = extra
        self.node = node


class Table:
    """Atom interning by structural equality of (normalised) arguments."""

    def __init__(self):
        self.atoms = []
        self._by_head = {}

    # equality of argument objects
    def arg_eq(self, a, b):
        if isinstance(a, RF) and isinstance(b, RF):
            return self.equal(a, b)
        if isinstance(a, Slice) and isinstance(b, Slice):
            return all(self.arg_eq(x, y) for x, y in zip(a.parts(), b.parts()))
        if isinstance(a, tuple) and isinstance(b, tuple):
            return len(a) == len(b) and all(self.arg_eq(x, y)
                                            for x, y in zip(a, b))
        if isinstance(a, (RF, Slice, tuple)) or isinstance(b, (RF, Slice, tuple)):
            return False
        return a == b

    def intern(self, head, args=(), extra=None, node=None):
        key = (head, len(args), extra)
        for i in self._by_head.get(key, ()):
            at = self.atoms[i]
            if all(self.arg_eq(x, y) for x, y in zip(at.args, args)):
                return i
        self.atoms.append(Atom(head, args, extra, node))
        i = len(self.atoms) - 1
        self._by_head.setdefault(key, []).append(i)
        return i

    def atom(self, head, args=(), extra=None, node=None):
        if head == 'guard' and len(args) == 3 and isinstance(args[0], RF):
            # one spelling per condition: guard(not c, a, b) is guard(c, b, a); likewise
            # for `is not`, `!=`, `not in`
            c, flipped = self.canon_cond(args[0])
            args = (c, args[2], args[1]) if flipped else (c, args[1], args[2])
            if isinstance(args[1], RF) and isinstance(args[2], RF) and self.equal(args[1], args[2]):
                return args[1]
            # a selection nested in an arm of a selection on the same test is already decided there:
            # guard(c, a, guard(c, x, y)) is guard(c, a, y); guard(c, guard(c, x, y), b) is guard(c, x, b)
            for k_ in (1, 2):
                if isinstance(args[k_], RF) and args[k_].single_atom() is not None:
                    in_ = self.atoms[args[k_].single_atom()]
                    if in_.head == 'guard' and len(in_.args) == 3 and isinstance(in_.args[0], RF) and self.equal(in_.args[0], c):
                        args = (c, in_.args[1], args[2]) if k_ == 1 else (c, args[1], in_.args[2])
            if isinstance(args[1], RF) and isinstance(args[2], RF) and self.equal(args[1], args[2]):
                return args[1]
            ca_ = c.single_atom()
            if ca_ is not None and self.atoms[ca_].head == 'const' and self.atoms[ca_].args[0] in ('True', 'False') and \
                    isinstance(args[1], RF) and isinstance(args[2], RF):
                # a selection on a literal truth value is the selected arm
                return args[1] if self.atoms[ca_].args[0] == 'True' else args[2]
        if head == 'bool' and extra in ('And', 'Or') and args and all(isinstance(x, RF) for x in args) and \
                not getattr(self, '_in_bool', False):
            # one spelling per conjunction / disjunction: literals in canonical polarity and a fixed order; a
            # disjunction in which at least half of the literals are negated is written as the negation of the
            # conjunction of their opposites (De Morgan): `a is None or not b`  ==  not (a is not None and b)
            self._in_bool = True
            try:
                lits = []
                for x in args:
                    c, f = self.canon_cond(x)
                    lits.append((c, f))
                nneg = sum(1 for c, f in lits if f)
                if extra == 'Or' and 2 * nneg >= len(lits):
                    mem = [c if f else RF(self, p_atom(self.intern('unop', (c,), 'Not', None))) for c, f in lits]
                    mem = sorted(mem, key=lambda r: self.fmt(r))
                    conj = RF(self, p_atom(self.intern('bool', tuple(mem), 'And', None)))
                    return RF(self, p_atom(self.intern('unop', (conj,), 'Not', None)))
                if extra == 'And' and 2 * nneg > len(lits):
                    # ... and a conjunction in which MORE than half are negated as the negation of the disjunction of their
                    # opposites: x != a and x != b  ==  not (x == a or x == b)
                    mem = [c if f else RF(self, p_atom(self.intern('unop', (c,), 'Not', None))) for c, f in lits]
                    mem = sorted(mem, key=lambda r: self.fmt(r))
                    disj = RF(self, p_atom(self.intern('bool', tuple(mem), 'Or', None)))
                    return RF(self, p_atom(self.intern('unop', (disj,), 'Not', None)))
                mem = [RF(self, p_atom(self.intern('unop', (c,), 'Not', None))) if f else c for c, f in lits]
                mem = sorted(mem, key=lambda r: self.fmt(r))
                return RF(self, p_atom(self.intern('bool', tuple(mem), extra, None)))
            finally:
                self._in_bool = False
        # slice bounds counted from a known length: x[a:len(x)] is x[a:], x[:len(x) - 1] is x[:-1]
        if head == 'idx' and len(args) == 2 and isinstance(args[0], RF) and isinstance(args[1], Slice) and \
                args[1].hi is not None and args[1].step is None and args[1].hi.const() is None and \
                not getattr(self, '_in_lenidx', False):
            self._in_lenidx = True
            try:
                L_ = None
                ba_ = args[0].single_atom()
                if ba_ is not None and self.atoms[ba_].head == 'alloc' and isinstance(self.atoms[ba_].args[0], RF):
                    za_ = self.atoms[ba_].args[0].single_atom()
                    if za_ is not None and self.atoms[za_].head == 'call' and self.atoms[za_].extra and \
                            self.atoms[za_].extra[0] in ('fn:zeros', 'fn:ones', 'fn:empty') and self.atoms[za_].args and \
                            isinstance(self.atoms[za_].args[0], RF):
                        n0 = self.atoms[za_].args[0]
                        na = n0.single_atom()
                        if na is not None and self.atoms[na].head == 'tuple':
                            n0 = self.atoms[na].args[0] if self.atoms[na].args and isinstance(self.atoms[na].args[0], RF) else None
                        L_ = n0
                cands = [x for x in (L_, self.atom('call', (args[0],), extra=('fn:len',))) if x is not None]
            finally:
                self._in_lenidx = False
            for L0 in cands:
                c_ = (args[1].hi - L0).const()
                if c_ is not None and c_.denominator == 1 and c_ <= 0:
                    nh = None if c_ == 0 else self.const(c_)
                    sl_ = Slice(args[1].lo, nh, None)
                    if sl_.is_full():
                        return args[0]
                    return self.atom('idx', (args[0], sl_))
        # counting from the end: x[len(x) - k] is x[-k]
        if head == 'idx' and len(args) == 2 and isinstance(args[0], RF) and isinstance(args[1], RF) and \
                args[1].const() is None and not getattr(self, '_in_lenidx', False):
            self._in_lenidx = True
            try:
                off = args[1] - self.atom('call', (args[0],), extra=('fn:len',))
            finally:
                self._in_lenidx = False
            c_ = off.const()
            if c_ is not None and c_.denominator == 1 and c_ < 0:
                return self.atom('idx', (args[0], self.const(c_)))
        # an item of a leading slice is the item itself: x[:n][k] is x[k] for 0 <= k < n
        if head == 'idx' and len(args) == 2 and isinstance(args[0], RF) and isinstance(args[1], RF) and \
                args[1].const() is not None and args[1].const().denominator == 1 and args[1].const() >= 0 and \
                args[0].single_atom() is not None:
            in_ = self.atoms[args[0].single_atom()]
            if in_.head == 'idx' and len(in_.args) == 2 and isinstance(in_.args[1], Slice) and in_.args[1].step is None and \
                    (in_.args[1].lo is None or in_.args[1].lo.const() == 0) and in_.args[1].hi is not None and \
                    in_.args[1].hi.const() is not None and args[1].const() < in_.args[1].hi.const():
                return self.atom('idx', (in_.args[0], args[1]))
        # a record (NamedTuple class of the analysed tree): the field of a freshly built record is the value it was built
        # with; a field of C._make(row) is the item of row at the field's position
        if head in ('getattr', 'idx') and len(args) == 2 and isinstance(args[0], RF) and args[0].single_atom() is not None and \
                getattr(self, 'records', None) is not None:
            ca_ = self.atoms[args[0].single_atom()]
            if ca_.head in ('call', 'mcall') and ca_.extra and isinstance(ca_.extra[0], str) and ca_.extra[0].startswith('fn:'):
                cname = ca_.extra[0][3:]
                made = cname.endswith('._make')
                flds = self.records(cname[:-6] if made else cname)
                k_ = None
                if flds is not None:
                    if head == 'getattr' and args[1] in flds:
                        k_ = flds.index(args[1])
                    elif head == 'idx' and isinstance(args[1], RF) and args[1].const() is not None and \
                            args[1].const().denominator == 1 and -len(flds) <= args[1].const() < len(flds):
                        k_ = int(args[1].const()) % len(flds)
                if k_ is not None and made and len(ca_.args) == 1 and isinstance(ca_.args[0], RF):
                    return self.atom('idx', (ca_.args[0], self.const(k_)))
                if k_ is not None and not made:
                    kwn_ = list(ca_.extra[1:])
                    npos_ = len(ca_.args) - len(kwn_)
                    if k_ < npos_ and isinstance(ca_.args[k_], RF):
                        return ca_.args[k_]
                    if flds[k_] in kwn_ and isinstance(ca_.args[npos_ + kwn_.index(flds[k_])], RF):
                        return ca_.args[npos_ + kwn_.index(flds[k_])]
        # the fields of inspect.getfullargspec(...) by name are its items by position
        if head == 'getattr' and len(args) == 2 and isinstance(args[0], RF) and args[1] in _FULLARGSPEC and \
                args[0].single_atom() is not None:
            ca_ = self.atoms[args[0].single_atom()]
            if ca_.head in ('call', 'mcall') and ca_.extra and ca_.extra[0].endswith('getfullargspec'):
                return self.atom('idx', (args[0], self.const(_FULLARGSPEC.index(args[1]))))
        # a column picked first and a row second is the element picked at once: x[:, j][i] is x[i, j]
        if head == 'idx' and len(args) == 2 and isinstance(args[0], RF) and args[0].single_atom() is not None and \
                isinstance(args[1], RF):
            in_ = self.atoms[args[0].single_atom()]
            if in_.head == 'idx' and len(in_.args) >= 3 and isinstance(in_.args[1], Slice) and in_.args[1].is_full() and \
                    all(isinstance(x, RF) for x in in_.args[2:]):
                return self.atom('idx', (in_.args[0], args[1]) + tuple(in_.args[2:]))
        # one spelling for the size of the first axis and for the number of axes: x.shape[0] is len(x), x.ndim is
        # len(x.shape)  (identical wherever both spellings are valid)
        if head == 'attr' and len(args) == 1 and isinstance(args[0], str) and args[0].endswith('.ndim'):
            return self.atom('call', (self.atom('attr', (args[0][:-5] + '.shape',)),), extra=('fn:len',))
        if head == 'getattr' and len(args) == 2 and args[1] == 'ndim' and isinstance(args[0], RF):
            return self.atom('call', (self.atom('getattr', (args[0], 'shape')),), extra=('fn:len',))
        if head == 'idx' and len(args) == 2 and isinstance(args[0], RF) and isinstance(args[1], RF) and \
                args[1].const() == 0 and args[0].single_atom() is not None:
            sa0 = self.atoms[args[0].single_atom()]
            if sa0.head == 'getattr' and len(sa0.args) == 2 and sa0.args[1] == 'shape' and isinstance(sa0.args[0], RF):
                return self.atom('call', (sa0.args[0],), extra=('fn:len',))
            if sa0.head == 'attr' and isinstance(sa0.args[0], str) and sa0.args[0].endswith('.shape'):
                pfx = sa0.args[0][:-6]
                base_ = self.atom('attr', (pfx,)) if '.' in pfx else self.name(pfx)
                return self.atom('call', (base_,), extra=('fn:len',))
        if head == 'idx' and len(args) == 2 and isinstance(args[0], RF) and getattr(self, 'scalars', None):
            # quantities a rule declares scalar (a radius, the first element of a 1-D array): picking an element
            # or a slice of an expression leaves them alone, so hoisting `r = R + z` out of a loop and writing
            # `r[i]` is the same as `R + z[i]`
            if any(self.equal(args[0], sc) for sc in self.scalars):
                return args[0]
        if head == 'idx' and len(args) == 2 and isinstance(args[0], RF) and isinstance(args[1], RF) and \
                args[1].const() is not None and args[1].const().denominator == 1:
            # the last of a sequence of known length: sorted([a, b])[-1] is sorted([a, b])[1]
            sa_ = args[0].single_atom()
            if sa_ is not None and args[1].const() < 0:
                seq = self.atoms[sa_]
                n_ = None
                if seq.head == 'tuple':
                    n_ = len(seq.args)
                elif seq.head in ('call', 'mcall') and seq.extra and getattr(self, 'ret_len', None) is not None and \
                        self.ret_len(seq.extra[0]) is not None:
                    # a function of the analysed tree whose every return is a tuple of n items
                    n_ = self.ret_len(seq.extra[0])
                elif seq.head == 'call' and seq.extra == ('fn:sorted',) and len(seq.args) == 1 and \
                        isinstance(seq.args[0], RF) and seq.args[0].single_atom() is not None and \
                        self.atoms[seq.args[0].single_atom()].head == 'tuple':
                    n_ = len(self.atoms[seq.args[0].single_atom()].args)
                if n_ is not None and 0 <= n_ + int(args[1].const()) < n_:
                    return self.atom('idx', (args[0], self.const(n_ + int(args[1].const()))))
            # where(mask)[0] is flatnonzero(mask)
            wa = args[0].single_atom()
            if wa is not None and self.atoms[wa].head == 'call' and self.atoms[wa].extra == ('fn:where',) and \
                    len(self.atoms[wa].args) == 1 and args[1].const() == 0:
                return self.atom('call', self.atoms[wa].args, extra=('fn:flatnonzero',))
            # diff(x)[k] is x[k+1] - x[k]  (k >= 0)  /  x[k] - x[k-1]  (k < 0)
            da = args[0].single_atom()
            if da is not None and self.atoms[da].head == 'call' and self.atoms[da].extra == ('fn:diff',) and \
                    len(self.atoms[da].args) == 1 and isinstance(self.atoms[da].args[0], RF):
                x = self.atoms[da].args[0]
                k = int(args[1].const())
                hi, lo = (k + 1, k) if k >= 0 else (k, k - 1)
                return self.atom('idx', (x, self.const(hi))) - self.atom('idx', (x, self.const(lo)))
        if head == 'elem' and len(args) == 2 and isinstance(args[0], RF) and args[0].single_atom() is None and \
                args[0].atoms() and args[0].const() is None and not getattr(self, '_in_elem', False):
            # iterating over element-wise arithmetic: the i-th item of (a + b/2) is a_i + b_i/2, exactly as for an
            # explicit index (Conv.subscript)
            i_ = args[1]

            def pick_(a, at, nargs):
                if at.head == 'name' and ((at.args[0].isupper() and len(at.args[0]) >= 3) or at.args[0] == 'pi'):
                    return RF(self, p_atom(a))
                return self.atom('elem', (RF(self, p_atom(a)), i_))
            return self.rewrite(args[0], pick_, _memo=None)
        if head == 'elem' and len(args) == 2 and isinstance(args[0], RF):
            # the i-th item of zip(a, b) is (a_i, b_i); of enumerate(a) it is (i, a_i)
            za = args[0].single_atom()
            if za is not None and self.atoms[za].head == 'call' and self.atoms[za].extra and not self.atoms[za].extra[1:]:
                fn = self.atoms[za].extra[0]
                if fn == 'fn:zip':
                    return self.atom('tuple', tuple(self.atom('elem', (q, args[1])) for q in self.atoms[za].args))
                if fn == 'fn:enumerate' and len(self.atoms[za].args) == 1:
                    return self.atom('tuple', (args[1], self.atom('elem', (self.atoms[za].args[0], args[1]))))
        return RF(self, p_atom(self.intern(head, args, extra, node)))

    NEG_CMP = {'IsNot': 'Is', 'NotEq': 'Eq', 'NotIn': 'In'}

    def _count_like(self, rf):
        """an integer literal, len(...), or a sum of those with integer coefficients"""
        if rf.den != p_const(1):
            return False
        for m, c in rf.num.items():
            if c.denominator != 1:
                return False
            for a, e in m:
                at = self.atoms[a]
                if not (at.head == 'call' and at.extra and at.extra[0] == 'fn:len'):
                    return False
        return True

    def canon_cond(self, rf):
        """(positive form of a condition, whether it was negated)"""
        flipped = False
        while True:
            a = rf.single_atom() if isinstance(rf, RF) else None
            if a is None:
                return rf, flipped
            at = self.atoms[a]
            if at.head == 'unop' and at.extra == 'Not' and isinstance(at.args[0], RF):
                rf = at.args[0]
                flipped = not flipped
                continue
            if at.head == 'cmp' and isinstance(at.extra, tuple) and len(at.extra) == 1 and at.extra[0] in self.NEG_CMP:
                rf = RF(self, p_atom(self.intern('cmp', at.args, (self.NEG_CMP[at.extra[0]],), None)))
                flipped = not flipped
                continue
            # integers are totally ordered: a <= b is not (b < a) when both sides are counts / integer literals
            if at.head == 'cmp' and at.extra == ('LtE',) and len(at.args) == 2 and \
                    all(isinstance(x, RF) and self._count_like(x) for x in at.args):
                rf = RF(self, p_atom(self.intern('cmp', (at.args[1], at.args[0]), ('Lt',), None)))
                flipped = not flipped
                continue
            # emptiness tests: len(x) == 0 is `not x`, 0 < len(x) is `x` (for the sized containers they are used on)
            if at.head == 'cmp' and isinstance(at.extra, tuple) and len(at.extra) == 1 and len(at.args) == 2 and \
                    at.extra[0] in ('Eq', 'Lt'):
                ln = None
                for k in (0, 1):
                    o, z = at.args[k], at.args[1 - k]
                    oa = o.single_atom() if isinstance(o, RF) else None
                    if oa is not None and self.atoms[oa].head == 'call' and self.atoms[oa].extra and \
                            self.atoms[oa].extra[0] == 'fn:len' and isinstance(z, RF) and z.const() == 0 and \
                            len(self.atoms[oa].args) == 1 and isinstance(self.atoms[oa].args[0], RF):
                        # for Lt the canonical order is (smaller, larger): 0 < len(x) only
                        if at.extra[0] == 'Eq' or k == 1:
                            ln = self.atoms[oa].args[0]
                if ln is not None:
                    rf = ln
                    if at.extra[0] == 'Eq':
                        flipped = not flipped
                    continue
            return rf, flipped

    def const(self, c):
        return RF(self, p_const(c))

    def name(self, n):
        return self.atom('name', (n,))

    # logarithms interned up to inversion of their argument
    def log(self, head, arg):
        key = (head, 1, None)
        for i in self._by_head.get(key, ()):
            other = self.atoms[i].args[0]
            if self.equal(other, arg):
                return RF(self, p_atom(i))
            if self.equal(other * arg, self.const(1)):
                return -RF(self, p_atom(i))
        return self.atom(head, (arg,))

    # sqrt atoms: (sqrt u)^2 -> u
    def reduce(self, rf):
        need = False
        for p in (rf.num, rf.den):
            for m in p:
                for a, e in m:
                    if self.atoms[a].head == 'sqrt' and (e >= 2 or e <= -2):
                        need = True
        if not need:
            return rf

        def ev(p):
            tot = self.const(0)
            for m, c in p.items():
                t = self.const(c)
                for a, e in m:
                    at = self.atoms[a]
                    if at.head == 'sqrt' and abs(e) >= 2:
                        u = self.reduce(at.args[0])
                        q, r = divmod(abs(e), 2)
                        f = u.ipow(q)
                        if r:
                            f = f * RF(self, p_atom(a))
                        t = t * (f if e > 0 else f.inv())
                    else:
                        t = t * RF(self, {((a, e),): Fraction(1)}) if e > 0 \
                            else t / RF(self, {((a, -e),): Fraction(1)})
                tot = tot + t
            return tot
        return ev(rf.num) / ev(rf.den)

    def rewrite(self, rf, f, _memo=None):
        """Rebuild rf bottom-up; f(atom_id, Atom, new_args) -> RF or None
        (None: keep the atom with rewritten arguments)."""
        memo = _memo if _memo is not None else {}

        def rw_arg(x):
            if isinstance(x, RF):
                return self.rewrite(x, f, memo)
            if isinstance(x, Slice):
                return Slice(*[rw_arg(p) if p is not None else None
                               for p in x.parts()])
            if isinstance(x, tuple):
                return tuple(rw_arg(y) for y in x)
            return x

        def rw_atom(a):
            if a in memo:
                return memo[a]
            at = self.atoms[a]
            nargs = tuple(rw_arg(x) for x in at.args)
            r = f(a, at, nargs)
            if r is None:
                if all(self.arg_eq(x, y) for x, y in zip(nargs, at.args)):
                    r = RF(self, p_atom(a))
                elif at.head in ('log', 'log10', 'log2'):
                    r = self.log(at.head, nargs[0])
                else:
                    r = self.atom(at.head, nargs, at.extra, at.node)
            memo[a] = r
            return r

        def ev(p):
            tot = self.const(0)
            for m, c in p.items():
                term = self.const(c)
                for a, e in m:
                    term = term * rw_atom(a).ipow(e)
                tot = tot + term
            return tot
        if not rf.atoms():
            return rf
        return ev(rf.num) / ev(rf.den)

    def equal(self, a, b):
        if not (isinstance(a, RF) and isinstance(b, RF)):
            # slices / tuples / None: structural comparison (never equal to an RF)
            if a is None or b is None:
                return a is b
            return self.arg_eq(a, b)
        a = self.reduce(a)
        b = self.reduce(b)
        if a.den == b.den:
            return p_add(a.num, b.num, -1) == {}
        return p_add(p_mul(a.num, b.den), p_mul(b.num, a.den), -1) == {}

    def proportional(self, a, b):
        """a = c*b for a non-zero constant c; returns c or None."""
        a = self.reduce(a)
        b = self.reduce(b)
        l = p_mul(a.num, b.den)
        r = p_mul(b.num, a.den)
        if not l or not r or set(l) != set(r):
            return None
        ratio = None
        for m in l:
            q = l[m] / r[m]
            if ratio is None:
                ratio = q
            elif q != ratio:
                return None
        return ratio

    # pretty printing --------------------------------------------------
    def fmt_atom(self, i):
        at = self.atoms[i]
        h = at.head
        if h == 'name' or h == 'attr':
            return at.args[0]
        if h == 'idx':
            return '%s[%s]' % (self._fa(at.args[0]), ', '.join(
                self._fa(x) for x in at.args[1:]))
        if h == 'const':
            return str(at.args[0])
        if h in ('call', 'mcall') and at.extra:
            fn = at.extra[0][3:]
            kwn = at.extra[1:]
            npos = len(at.args) - len(kwn)
            parts = [self._fa(x) for x in at.args[:npos]] + [
                '%s=%s' % (k, self._fa(v)) for k, v in zip(kwn, at.args[npos:])]
            return '%s(%s)' % (fn, ', '.join(parts))
        if h == 'cmp':
            sym = {'Lt': '<', 'LtE': '<=', 'Gt': '>', 'GtE': '>=', 'Eq': '==',
                   'NotEq': '!=', 'Is': 'is', 'IsNot': 'is not', 'In': 'in',
                   'NotIn': 'not in'}
            out = self._fa(at.args[0])
            for o, a in zip(at.extra, at.args[1:]):
                out += ' %s %s' % (sym.get(o, o), self._fa(a))
            return '(' + out + ')'
        ex = (', ' + str(at.extra)) if at.extra else ''
        return '%s(%s%s)' % (h, ', '.join(self._fa(x) for x in at.args), ex)

    def _fa(self, x):
        if isinstance(x, RF):
            return self.fmt(x)
        if isinstance(x, Slice):
            return ':'.join('' if p is None else self.fmt(p)
                            for p in x.parts()[:2]) + \
                (':' + self.fmt(x.step) if x.step is not None else '')
        if isinstance(x, tuple):
            return '(' + ', '.join(self._fa(y) for y in x) + ')'
        return str(x)

    def _fp(self, p):
        if not p:
            return '0'
        terms = []
        items = []
        for m, c in p.items():
            fs = []
            for a, e in m:
                s = self.fmt_atom(a)
                fs.append(s if e == 1 else '%s**%d' % (s, e))
            # the printed form does not depend on the order in which atoms were interned
            items.append((len(m), '*'.join(sorted(fs)), c))
        for _, body, c in sorted(items, key=lambda t: (t[0], t[1])):
            if not body:
                terms.append(str(c))
            elif c == 1:
                terms.append(body)
            elif c == -1:
                terms.append('-' + body)
            else:
                terms.append('%s*%s' % (c, body))
        s = ' + '.join(terms).replace('+ -', '- ')
        return s

    def fmt(self, rf):
        n = self._fp(rf.num)
        if rf.den == p_const(1):
            return n
        d = self._fp(rf.den)
        if len(rf.num) > 1:
            n = '(%s)' % n
        if len(rf.den) > 1 or '*' in d:
            d = '(%s)' % d
        return '%s/%s' % (n, d)

    def diff(self, a, b, limit=160, n=3):
        """Short description of where two unequal forms differ: the innermost
        atoms that occur in only one of them."""
        def uniq(x, y):
            ya = y.all_atoms()
            only = [i for i in x.all_atoms() if i not in ya]
            inner = []
            for i in only:
                sub = set()
                for arg in self.atoms[i].args:
                    for r in _rfs_in(arg):
                        sub |= r.all_atoms()
                if not (sub & set(only)):
                    inner.append(i)
            return [self.fmt_atom(i)[:limit] for i in sorted(inner)[:n]]
        return 'only in code: %s; only in expected: %s' % (uniq(a, b), uniq(b, a))

    def short(self, rf, limit=300):
        s = self.fmt(rf)
        return s if len(s) <= limit else s[:limit] + '...'


# ----------------------------------------------------------------------------
COUNT_ATTRS = {'nLayers', 'nlayers', '_nlayers', 'nLevels', '_ngrid', 'ngrid', '_ngauss', 'ngauss', '_total_cia'}
_FULLARGSPEC = ('args', 'varargs', 'varkw', 'defaults', 'kwonlyargs', 'kwonlydefaults', 'annotations')
NUMERIC_MODULES = {'np', 'numpy', 'math', 'numba', 'scipy', 'sp'}
ERASED_CALLS = {'float', 'float64', 'asarray', 'asanyarray', 'array', 'ravel', 'flatten',
                'copy', 'ascontiguousarray', 'squeeze', 'tolist'}
PI_NAMES = {'pi', 'PI'}


def dotted(node):
    """'a.b.c' for a pure Name/Attribute chain, else None."""
    parts = []
    while isinstance(node, ast.Attribute):
        parts.append(node.attr)
        node = node.value
    if isinstance(node, ast.Name):
        parts.append(node.id)
        return '.'.join(reversed(parts))
    return None


# leading parameters (those that are normally passed by position) of library functions the repository calls
LIBRARY_SIGNATURES = {
    'ast.parse': ['source'], 'ast.literal_eval': ['node_or_string'],
    'searchsorted': ['a', 'v'], 'interp': ['x', 'xp', 'fp'], 'logspace': ['start', 'stop', 'num'],
    'linspace': ['start', 'stop', 'num'], 'clip': ['a', 'a_min', 'a_max'], 'dot': ['a', 'b'],
}


class Conv:
    """AST expression -> RF.  `env` maps local names to RF (forward
    substitution of unique reaching definitions is done by sa.flow);
    `canon` canonicalises dotted attribute paths (trivial getters)."""

    def __init__(self, tab=None, env=None, canon=None, on_call=None,
                 erase_broadcast=True):
        self.tab = tab or Table()
        self.env = env if env is not None else {}
        self.canon = canon or (lambda d: d)
        self.on_call = on_call
        self.erase_broadcast = erase_broadcast

    def fork(self):
        c = Conv(self.tab, dict(self.env), self.canon, self.on_call,
                 self.erase_broadcast)
        c._bd = getattr(self, '_bd', 0)
        if getattr(self, 'forward_attrs', False):
            c.forward_attrs = True
        if getattr(self, 'keep_casts', False):
            c.keep_casts = True
        return c

    def parse(self, text):
        return self.expr(ast.parse(text.strip(), mode='eval').body)

    # ------------------------------------------------------------------
    def expr(self, n):
        t = self.tab
        if isinstance(n, ast.Constant):
            v = n.value
            if isinstance(v, bool) or v is None or isinstance(v, str) \
                    or isinstance(v, bytes) or v is Ellipsis:
                return t.atom('const', (repr(v),))
            if isinstance(v, int):
                return t.const(v)
            if isinstance(v, float):
                if v != v or v in (float('inf'), float('-inf')):
                    return t.atom('const', (repr(v),))
                return t.const(Fraction(repr(v)))
            return t.atom('const', (repr(v),))
        if isinstance(n, ast.Name):
            if n.id in self.env:
                return self.env[n.id]
            if n.id in PI_NAMES:
                return t.name('pi')
            return t.name(n.id)
        if isinstance(n, ast.Attribute):
            d = dotted(n)
            if d is not None:
                root = d.split('.')[0]
                if root in self.env and not isinstance(self.env[root], RF):
                    pass
                if root in NUMERIC_MODULES:
                    last = d.split('.')[-1]
                    if last in PI_NAMES:
                        return t.name('pi')
                    if last in ('inf', 'infty', 'Inf'):
                        return t.atom('const', ('inf',))
                    if last == 'nan':
                        return t.atom('const', ('nan',))
                    return t.name(last)
                if root in self.env:
                    base = self.env[root]
                    rest = d.split('.')[1:]
                    ba = base.single_atom()
                    if ba is not None and t.atoms[ba].head in ('name', 'attr'):
                        return t.atom('attr', (self.canon(
                            t.atoms[ba].args[0] + '.' + '.'.join(rest)),))
                    cur = base
                    for r in rest:
                        cur = t.atom('getattr', (cur, r))
                    return cur
                cd = self.canon(d)
                if getattr(self, 'forward_attrs', False) and ('@' + cd) in self.env:
                    return self.env['@' + cd]
                return t.atom('attr', (cd,))
            return t.atom('getattr', (self.expr(n.value), n.attr))
        if isinstance(n, ast.BinOp):
            a = self.expr(n.left)
            b = self.expr(n.right)
            if isinstance(n.op, ast.Add):
                aa_, ba_ = a.single_atom(), b.single_atom()
                if aa_ is not None and ba_ is not None and t.atoms[aa_].head == 'tuple' and t.atoms[ba_].head == 'tuple' and \
                        isinstance(n.left, ast.Tuple) or (aa_ is not None and ba_ is not None and t.atoms[aa_].head == 'tuple' and
                                                          t.atoms[ba_].head == 'tuple' and isinstance(n.right, ast.Tuple)):
                    # (a,) + (b, c) is (a, b, c): concatenation of tuples written as such (lists share the atom but
                    # `[a] + [b]` is left to the join forms)
                    return t.atom('tuple', tuple(t.atoms[aa_].args) + tuple(t.atoms[ba_].args))
                return a + b
            if isinstance(n.op, ast.Sub):
                return a - b
            if isinstance(n.op, ast.Mult):
                return a * b
            if isinstance(n.op, ast.Div):
                if not b.num:
                    return t.atom('div0', (a,))
                return a / b
            if isinstance(n.op, ast.Pow):
                return self.power(a, b)
            return t.atom('binop', (a, b), extra=type(n.op).__name__)
        if isinstance(n, ast.UnaryOp):
            v = self.expr(n.operand)
            if isinstance(n.op, ast.USub):
                return -v
            if isinstance(n.op, ast.UAdd):
                return v
            return t.atom('unop', (v,), extra=type(n.op).__name__)
        if isinstance(n, ast.Subscript):
            return self.subscript(n)
        if isinstance(n, ast.Call):
            return self.call(n)
        if isinstance(n, ast.Compare):
            args = [self.expr(n.left)] + [self.expr(c) for c in n.comparators]
            ops = tuple(type(o).__name__ for o in n.ops)
            if len(ops) == 1 and ops[0] in ('Gt', 'GtE'):
                # a > b is b < a: one canonical spelling
                args = [args[1], args[0]]
                ops = ({'Gt': 'Lt', 'GtE': 'LtE'}[ops[0]],)
            elif len(ops) == 1 and ops[0] in ('Eq', 'NotEq'):
                args = sorted(args, key=lambda r: t.fmt(r))
            if len(ops) == 1 and ops[0] in ('In', 'NotIn'):
                # x in frozenset(T) / set(T) / list(T) / tuple(T) asks the same question as x in T (T a literal collection)
                while True:
                    ca_ = args[1].single_atom()
                    if ca_ is not None and t.atoms[ca_].head == 'call' and \
                            t.atoms[ca_].extra in (('fn:list',), ('fn:tuple',), ('fn:set',), ('fn:frozenset',)) and \
                            len(t.atoms[ca_].args) == 1 and isinstance(t.atoms[ca_].args[0], RF):
                        in_ = t.atoms[ca_].args[0].single_atom()
                        if in_ is not None and t.atoms[in_].head == 'tuple':
                            args[1] = t.atoms[ca_].args[0]
                            continue
                    break
            if len(ops) == 1 and ops[0] in ('In', 'NotIn') and isinstance(n.comparators[0], (ast.Tuple, ast.List, ast.Set)) \
                    and 1 <= len(n.comparators[0].elts) <= 3 and not any(isinstance(e, ast.Starred) for e in n.comparators[0].elts):
                # membership in a literal collection is the disjunction of the equalities: x in (a, b)  ==  x == a or x == b
                eqs = [t.atom('cmp', tuple(sorted([args[0], self.expr(e)], key=lambda r: t.fmt(r))), extra=('Eq',))
                       for e in n.comparators[0].elts]
                d_ = eqs[0] if len(eqs) == 1 else t.atom('bool', tuple(eqs), extra='Or')
                return d_ if ops[0] == 'In' else t.atom('unop', (d_,), extra='Not')
            if len(ops) == 1 and ops[0] in ('Is', 'IsNot'):
                r = self._none_test(args, ops[0])
                if r is not None:
                    return r
            return t.atom('cmp', tuple(args), extra=ops)
        if isinstance(n, ast.BoolOp):
            return t.atom('bool', tuple(self.expr(v) for v in n.values),
                          extra=type(n.op).__name__)
        if isinstance(n, ast.IfExp):
            tst, bdy, els = self.expr(n.test), self.expr(n.body), self.expr(n.orelse)
            if t.equal(tst, bdy):
                # `x if x else y` is `x or y`
                return t.atom('bool', (tst, els), extra='Or')
            return t.atom('guard', (tst, bdy, els))
        if isinstance(n, (ast.Tuple, ast.List)):
            return t.atom('tuple', tuple(self.expr(e) for e in n.elts))
        if isinstance(n, ast.Set) and not any(isinstance(e, ast.Starred) for e in n.elts):
            # {a, b} is set((a, b))
            return t.atom('call', (t.atom('tuple', tuple(self.expr(e) for e in n.elts)),), extra=('fn:set',))
        if isinstance(n, ast.Dict) and all(k is not None for k in n.keys):
            flat = []
            for k, v in zip(n.keys, n.values):
                flat.append(self.expr(k))
                flat.append(self.expr(v))
            return t.atom('dict', tuple(flat))
        if isinstance(n, ast.Starred):
            return t.atom('star', (self.expr(n.value),))
        if isinstance(n, ast.JoinedStr):
            # f'log_{x}' and 'log_{}'.format(x) are one formatted string
            tmpl, fargs, plain = '', [], True
            for v in n.values:
                if isinstance(v, ast.Constant) and isinstance(v.value, str):
                    tmpl += v.value.replace('{', '{{').replace('}', '}}')
                elif isinstance(v, ast.FormattedValue) and v.conversion == -1 and v.format_spec is None:
                    tmpl += '{}'
                    fargs.append(self.expr(v.value))
                else:
                    plain = False
            if plain:
                return t.atom('fmt', (tmpl,) + tuple(fargs))
            return t.atom('fstring', (ast.unparse(n),))
        if isinstance(n, ast.NamedExpr):
            v = self.expr(n.value)
            self.env[n.target.id] = v
            return v
        if isinstance(n, (ast.ListComp, ast.GeneratorExp, ast.SetComp, ast.DictComp)):
            r = self._comp(n)
            if r is not None:
                return r
        if isinstance(n, ast.Lambda) and len(n.args.args) == 1 and not (n.args.vararg or n.args.kwarg or n.args.kwonlyargs
                                                                        or n.args.posonlyargs or n.args.defaults):
            # lambda p: p[k] picks item k: the same key function as operator.itemgetter(k)
            b_ = n.body
            if isinstance(b_, ast.Subscript) and isinstance(b_.value, ast.Name) and b_.value.id == n.args.args[0].arg and \
                    isinstance(b_.slice, ast.Constant) and isinstance(b_.slice.value, int):
                return self.expr(ast.parse('operator.itemgetter(%d)' % b_.slice.value, mode='eval').body)
        # lambdas, dict comprehensions ...: opaque, keyed by normalised text
        return t.atom('opaque', (ast.unparse(n),), node=n)

    def _none_test(self, args, op):
        """`guard(c, None, X) is None` is c when X is something that is never None (a constructor call, a tuple, an
        allocation ...): the idiom `w = helper(...)  # returns None or a window;  if w is None: continue`"""
        t = self.tab

        def is_none(x):
            a = x.single_atom() if isinstance(x, RF) else None
            return a is not None and t.atoms[a].head == 'const' and t.atoms[a].args == ('None',)

        def never_none(x):
            if not isinstance(x, RF):
                return False
            a = x.single_atom()
            if a is None:
                return True          # arithmetic
            at = t.atoms[a]
            if at.head in ('tuple', 'dict', 'alloc', 'comp', 'idx'):
                return True          # (an element or a slice of an array is never None)
            return at.head == 'call' and at.extra and at.extra[0] in (
                'fn:slice', 'fn:zeros', 'fn:ones', 'fn:empty', 'fn:array', 'fn:list', 'fn:dict', 'fn:tuple')
        if is_none(args[1]):
            x = args[0]
        elif is_none(args[0]):
            x = args[1]
        else:
            return None
        a = x.single_atom() if isinstance(x, RF) else None
        if a is None and isinstance(x, RF) and x.const() is None:
            # the result of arithmetic (a quotient, a product, a sum ...) is never None
            return t.atom('const', ('False' if op == 'Is' else 'True',))
        if a is None or t.atoms[a].head != 'guard':
            return None
        c, p, q = t.atoms[a].args
        res = None
        if is_none(p) and never_none(q):
            res = c
        elif is_none(q) and never_none(p):
            res = t.atom('unop', (c,), extra='Not')
        if res is None:
            return None
        return res if op == 'Is' else t.atom('unop', (res,), extra='Not')

    def _comp(self, n):
        """comprehension -> comp(elt, iter_1, (ifs_1), ...) with the bound variables named by binding depth,
        so that the names chosen for them and the spelling of the expressions inside do not matter"""
        t = self.tab
        c = self.fork()
        k = getattr(self, '_bd', 0)
        parts = []
        shapes = []

        def shape(x):
            nonlocal k
            if isinstance(x, ast.Name):
                c.env[x.id] = t.name('%%b%d' % k)
                k += 1
                return '_'
            if isinstance(x, (ast.Tuple, ast.List)):
                return '(' + ','.join(shape(e) for e in x.elts) + ')'
            raise ValueError
        # a list comprehension over literal sequences is the literal of its items: [f(x) for x in (a, b)] is [f(a), f(b)],
        # [f(x, y) for x in (a, b) for y in (c, d)] is [f(a, c), f(a, d), f(b, c), f(b, d)]
        if isinstance(n, (ast.ListComp, ast.GeneratorExp)) and \
                all(not g.ifs and not g.is_async and isinstance(g.target, ast.Name) for g in n.generators):
            def expand(conv, gens_):
                if not gens_:
                    return [conv.expr(n.elt)]
                it0 = conv._iterand(conv.expr(gens_[0].iter))
                a0 = it0.single_atom()
                if a0 is None or t.atoms[a0].head != 'tuple' or not all(isinstance(x, RF) for x in t.atoms[a0].args):
                    return None
                out_ = []
                for x in t.atoms[a0].args:
                    c2 = conv.fork()
                    c2.env[gens_[0].target.id] = x
                    sub_ = expand(c2, gens_[1:])
                    if sub_ is None:
                        return None
                    out_.extend(sub_)
                return out_
            items = expand(self, list(n.generators))
            if items is not None and len(items) <= 64:
                return t.atom('tuple', tuple(items))
        gens = list(n.generators)
        for gi, g in enumerate(gens):
            # `for i, x in enumerate(S)` with x unused is `for i in range(len(S))`
            if isinstance(g.iter, ast.Call) and isinstance(g.iter.func, ast.Name) and g.iter.func.id == 'enumerate' and \
                    len(g.iter.args) == 1 and not g.iter.keywords and isinstance(g.target, ast.Tuple) and \
                    len(g.target.elts) == 2 and all(isinstance(e, ast.Name) for e in g.target.elts):
                unused = g.target.elts[1].id
                rest = [n.elt] if not isinstance(n, ast.DictComp) else [n.key, n.value]
                rest += list(g.ifs) + [x for g2 in gens[gi + 1:] for x in [g2.iter] + list(g2.ifs)]
                if not any(isinstance(x, ast.Name) and x.id == unused for r_ in rest for x in ast.walk(r_)):
                    g2 = ast.comprehension(target=g.target.elts[0], iter=ast.Call(
                        func=ast.Name(id='range', ctx=ast.Load()), args=[ast.Call(
                            func=ast.Name(id='len', ctx=ast.Load()), args=[g.iter.args[0]], keywords=[])], keywords=[]),
                        ifs=g.ifs, is_async=0)
                    ast.copy_location(g2, g.target)
                    ast.fix_missing_locations(g2)
                    gens[gi] = g2
        for gi, g in enumerate(gens):
            if g.is_async:
                return None
            if gi > 0 and isinstance(g.iter, (ast.Tuple, ast.List)) and len(g.iter.elts) == 1 and \
                    not isinstance(g.iter.elts[0], ast.Starred):
                # `for a, b in (x,)` inside a comprehension only names the parts of x: a binding, not a loop; its
                # conditions are conditions of the enclosing generator
                xv = c.expr(g.iter.elts[0])
                tg_ = g.target
                if isinstance(tg_, ast.Name):
                    c.env[tg_.id] = xv
                elif isinstance(tg_, (ast.Tuple, ast.List)) and all(isinstance(e, ast.Name) for e in tg_.elts):
                    for j_, e in enumerate(tg_.elts):
                        c.env[e.id] = t.atom('idx', (xv, t.const(j_)))
                else:
                    return None
                prev = t.atoms[parts[-1].single_atom()]
                parts[-1] = t.atom('tuple', tuple(prev.args) + tuple(c.expr(x) for x in g.ifs))
                continue
            it = self._iterand(c.expr(g.iter))
            ia_ = it.single_atom()
            if ia_ is not None and t.atoms[ia_].head == 'comp' and t.atoms[ia_].extra[0] == 'ListComp' and \
                    len(t.atoms[ia_].args) == 3 and isinstance(g.target, ast.Name) and len(t.atoms[ia_].extra) == 2 and \
                    t.atoms[ia_].extra[1] == '_':
                # a comprehension over a comprehension / map(...): [E(p) for p in (F(x) for x in X)] is
                # [E(F(x)) for x in X]  (the inner bound variable has the name this depth gives: %b<k>)
                in_ = t.atoms[ia_]
                c.env[g.target.id] = in_.args[0]
                k += 1
                shapes.append('_')
                c._bd = k
                parts.append(in_.args[1])
                parts.append(t.atom('tuple', tuple(t.atoms[in_.args[2].single_atom()].args) + tuple(c.expr(x) for x in g.ifs)))
                continue
            try:
                shapes.append(shape(g.target))
            except ValueError:
                return None
            c._bd = k
            parts.append(it)
            parts.append(t.atom('tuple', tuple(c.expr(x) for x in g.ifs)))
        c._bd = k
        if isinstance(n, ast.DictComp):
            elt = t.atom('tuple', (c.expr(n.key), c.expr(n.value)))
        else:
            elt = c.expr(n.elt)
        # a generator expression yields the items the list comprehension holds (it is consumed by the call it is written in)
        kind = 'ListComp' if isinstance(n, ast.GeneratorExp) else type(n).__name__
        return t.atom('comp', (elt,) + tuple(parts), extra=(kind,) + tuple(shapes), node=n)

    def _iterand(self, it):
        """what a loop over `it` visits: list(x) / tuple(x) visit the items of x"""
        t = self.tab
        while True:
            a = it.single_atom()
            if a is not None and t.atoms[a].head == 'call' and t.atoms[a].extra in (('fn:list',), ('fn:tuple',)) and \
                    len(t.atoms[a].args) == 1 and isinstance(t.atoms[a].args[0], RF):
                it = t.atoms[a].args[0]
                continue
            return it

    def power(self, a, b):
        t = self.tab
        c = b.const()
        if c is not None:
            if c.denominator == 1:
                if c < 0 and not a.num:
                    return t.atom('div0', (a,))
                return t.reduce(a.ipow(int(c)))
            if c.denominator == 2:
                s = t.atom('sqrt', (a,))
                return t.reduce(s.ipow(int(c.numerator)))
        return t.atom('pow', (a, b))

    def index_item(self, s):
        if isinstance(s, ast.Slice):
            return Slice(self.expr(s.lower) if s.lower else None,
                         self.expr(s.upper) if s.upper else None,
                         self.expr(s.step) if s.step else None)
        v = self.expr(s)
        # x[slice(a, b)] is x[a:b]
        a = v.single_atom()
        if a is not None:
            at = self.tab.atoms[a]
            if at.head == 'call' and at.extra and at.extra[0] == 'fn:slice' and len(at.extra) == 1 and \
                    1 <= len(at.args) <= 3:
                def part(x):
                    xa = x.single_atom()
                    if xa is not None and self.tab.atoms[xa].head == 'const' and self.tab.atoms[xa].args == ('None',):
                        return None
                    return x
                ar = [part(x) for x in at.args]
                if len(ar) == 1:
                    return Slice(None, ar[0], None)
                return Slice(ar[0], ar[1], ar[2] if len(ar) == 3 else None)
        return v

    def subscript(self, n):
        t = self.tab
        base = self.expr(n.value)
        sl = n.slice
        items = list(sl.elts) if isinstance(sl, ast.Tuple) else [sl]
        conv = []
        for it in items:
            if self.erase_broadcast and isinstance(it, ast.Constant) and (
                    it.value is None or it.value is Ellipsis):
                continue
            if self.erase_broadcast and isinstance(it, ast.Attribute) and \
                    dotted(it) in ('np.newaxis', 'numpy.newaxis'):
                continue
            conv.append(self.index_item(it))
        if self.erase_broadcast:
            # x[i, :] is x[i]; x[:, :] is x
            while conv and isinstance(conv[-1], Slice) and conv[-1].is_full():
                conv.pop()
            if not conv:
                return base
        # index into a literal tuple atom with a constant -> the element
        ba = base.single_atom()
        if ba is not None and t.atoms[ba].head == 'tuple' and len(conv) == 1 \
                and isinstance(conv[0], RF) and conv[0].const() is not None:
            k = conv[0].const()
            if k.denominator == 1 and -len(t.atoms[ba].args) <= k < len(
                    t.atoms[ba].args):
                return t.atoms[ba].args[int(k)]
        if base.single_atom() is None and len(conv) == 1 and \
                isinstance(conv[0], (RF, Slice)) and base.atoms() and \
                not getattr(self, 'no_distribute', False):
            # element-wise arithmetic commutes with picking one element:
            # (a*b + c)[i] == a[i]*b[i] + c[i]
            i = conv[0]
            if base.const() is not None:
                return base

            def pick(a, at, nargs):
                # a module-level constant (KBOLTZ, PI, AMU ...) is a scalar: picking an element leaves it alone
                if at.head == 'name' and ((at.args[0].isupper() and len(at.args[0]) >= 3) or at.args[0] == 'pi'):
                    return RF(t, p_atom(a))
                return t.atom('idx', (RF(t, p_atom(a)), i))
            return t.rewrite(base, pick, _memo=None)
        return t.atom('idx', tuple([base] + conv))

    def _integral(self, rf):
        """rf is built from counts and indices only: len(...), searchsorted / argmax / argmin results, loop indices,
        int(...) and whole numbers, combined with + - *"""
        t = self.tab
        if not isinstance(rf, RF) or not p_is_const(rf.den) or rf.den.get(ONE) != 1:
            return False
        for mono, c in rf.num.items():
            if Fraction(c).denominator != 1:
                return False
            for a, e in mono:
                if e < 0:
                    return False
                at = t.atoms[a]
                if at.head in ('call', 'mcall') and at.extra and at.extra[0] in (
                        'fn:len', 'fn:int', 'fn:searchsorted', 'fn:argmax', 'fn:argmin',
                        'fn:mpi.get_rank', 'fn:mpi.nprocs', 'fn:get_rank', 'fn:nprocs'):     # rank and size of the communicator
                    continue
                if at.head == 'name' and isinstance(at.args[0], str) and at.args[0].startswith('@i'):
                    continue
                if at.head == 'call' and at.extra in (('fn:min',), ('fn:max',)) and len(at.args) >= 2 and \
                        all(self._integral(x) for x in at.args):
                    continue        # the smaller / larger of counts and indices
                # attributes that hold a count in this code base (number of layers / levels / grid points / quadrature
                # points): declared, not inferred
                leaf = None
                if at.head == 'attr' and isinstance(at.args[0], str):
                    leaf = at.args[0].rsplit('.', 1)[-1]
                elif at.head == 'getattr' and len(at.args) == 2 and isinstance(at.args[1], str):
                    leaf = at.args[1]
                if leaf in COUNT_ATTRS:
                    continue
                return False
        return True

    def _alias_target(self, f):
        """X when the called name is a local bound to the bare global / class name X (`make = PickleCIA; make(a)`, or a
        parameter of an inlined helper that was handed the class): the call is a call of X"""
        if isinstance(f, ast.Name) and f.id in self.env and isinstance(self.env[f.id], RF):
            a = self.env[f.id].single_atom()
            if a is not None and self.tab.atoms[a].head == 'name' and isinstance(self.tab.atoms[a].args[0], str) and \
                    self.tab.atoms[a].args[0] not in self.env and self.tab.atoms[a].args[0][:1].isupper():
                return self.tab.atoms[a].args[0]
        return None

    def call_name(self, f):
        al = self._alias_target(f)
        if al is not None:
            return al, None
        d = dotted(f)
        if d is not None:
            parts = d.split('.')
            if parts[0] in NUMERIC_MODULES:
                return parts[-1], None
            if len(parts) == 1:
                return d, None
            # method call on an object: name is the method, receiver separate
            return parts[-1], f.value
        if isinstance(f, ast.Attribute):
            return f.attr, f.value
        return None, None

    def call(self, n):
        t = self.tab
        if isinstance(n.func, ast.Attribute) and n.func.attr == 'format' and isinstance(n.func.value, ast.Constant) \
                and isinstance(n.func.value.value, str) and not n.keywords and \
                not any(isinstance(a, ast.Starred) for a in n.args):
            tmpl = n.func.value.value
            import re as _re
            fields = _re.findall(r'(?<!\{)\{([^{}]*)\}(?!\})', tmpl)
            if all(f == '' for f in fields) and len(fields) == len(n.args):
                return t.atom('fmt', (tmpl,) + tuple(self.expr(a) for a in n.args))
        name, recv = self.call_name(n.func)
        args = []
        for a in n.args:
            v = self.expr(a)
            if isinstance(a, ast.Starred):
                # f(*t) with t a tuple of known length is f(t0, t1, ...)
                inner = self.expr(a.value)
                ia = inner.single_atom()
                if ia is not None and t.atoms[ia].head == 'tuple' and all(isinstance(x, RF) for x in t.atoms[ia].args):
                    args.extend(t.atoms[ia].args)
                    continue
                if ia is not None and t.atoms[ia].head in ('call', 'mcall') and t.atoms[ia].extra and \
                        getattr(t, 'ret_len', None) is not None and t.ret_len(t.atoms[ia].extra[0]) is not None:
                    # f(*g(x)) with g returning a tuple of n items at every return: f(g(x)[0], ..., g(x)[n-1])
                    args.extend(t.atom('idx', (inner, t.const(j))) for j in range(t.ret_len(t.atoms[ia].extra[0])))
                    continue
            args.append(v)
        kws_ = list(n.keywords)
        if name in ('zeros', 'ones', 'empty', 'logspace', 'linspace') and recv is None:
            # the default dtype of these constructors is float64: saying so changes nothing
            kws_ = [k for k in kws_ if not (k.arg == 'dtype' and ast.unparse(k.value) in (
                'np.float64', 'numpy.float64', 'float', 'np.float_', "'float64'", 'np.double'))]
        kw = tuple(sorted(((k.arg or '**', self.expr(k.value))
                           for k in kws_), key=lambda kv: kv[0]))
        kwn = tuple(k for k, _ in kw)
        kwv = [v for _, v in kw]
        recv_rf = None
        if recv is not None:
            d0 = dotted(recv)
            if not (d0 is not None and d0.split('.')[0] in NUMERIC_MODULES):
                recv_rf = self.expr(recv)
        if self.on_call is not None:
            inl = self.on_call(n, name, recv, args, kw, recv_rf)
            if inl is not None:
                return inl
        # f(a, q=c, p=b) for a function of the analysed tree whose definitions all name their parameters (p, q) after the
        # first is f(a, b, c): keyword arguments that continue the positional ones are positional
        sig_ = getattr(t, 'signatures', None)
        sg_ = sig_(name, recv is not None) if sig_ is not None and name is not None and \
            not any(isinstance(a, ast.Starred) for a in n.args) else None
        dn_ = dotted(n.func)
        if dn_ is not None and not any(isinstance(a, ast.Starred) for a in n.args):
            # the leading parameters of a few library functions, by their documented names
            parts_ = dn_.split('.')
            if len(parts_) == 2 and ((parts_[0] in NUMERIC_MODULES and parts_[1] in LIBRARY_SIGNATURES) or
                                     dn_ in LIBRARY_SIGNATURES) and parts_[0] not in self.env:
                sg_ = LIBRARY_SIGNATURES.get(dn_) or LIBRARY_SIGNATURES[parts_[1]]
        if sg_ is not None and kw and not any(k == '**' for k, _ in kw):
            kd_ = dict(kw)
            args = list(args)       # (the call event keeps the arguments as written)
            while len(args) < len(sg_) and sg_[len(args)] in kd_:
                args.append(kd_.pop(sg_[len(args)]))
            kw = tuple(sorted(kd_.items(), key=lambda kv: kv[0]))
            kwn = tuple(k for k, _ in kw)
            kwv = [v for _, v in kw]
        if recv_rf is not None and name is not None and getattr(t, 'records', None) is not None:
            # a callable taken from a record field that is an item of a row: _Row._make(row).fget() is row[2]()
            cand_ = t.atom('getattr', (recv_rf, name))
            ca2_ = cand_.single_atom()
            if ca2_ is not None and t.atoms[ca2_].head == 'idx':
                return t.atom('callexpr', tuple([cand_] + args + kwv), extra=kwn or None)
        if name is None or (isinstance(n.func, ast.Name) and n.func.id in self.env and self._alias_target(n.func) is None):
            # call through an expression / a local bound to a value
            return t.atom('callexpr', tuple([self.expr(n.func)] + args + kwv),
                          extra=kwn or None)
        if recv is not None and name == 'searchsorted' and len(args) >= 1:
            # a.searchsorted(v, ...) is np.searchsorted(a, v, ...)
            d0_ = dotted(recv)
            if not (d0_ is not None and d0_.split('.')[0] in NUMERIC_MODULES):
                return t.atom('call', tuple([recv_rf if recv_rf is not None else self.expr(recv)] + args + kwv),
                              extra=('fn:searchsorted',) + kwn)
        if recv is not None and name == 'dot' and len(args) == 1 and not kw:
            # a.dot(b) is np.dot(a, b)
            d0_ = dotted(recv)
            if not (d0_ is not None and d0_.split('.')[0] in NUMERIC_MODULES):
                return t.atom('call', (recv_rf if recv_rf is not None else self.expr(recv), args[0]), extra=('fn:dot',))
        if recv is not None:
            if recv_rf is None:
                recv_rf = self.expr(recv)
            ra = recv_rf.single_atom()
            if ra is not None and t.atoms[ra].head in ('name', 'attr') and \
                    name not in REDUCERS and name not in ERASED_CALLS:
                # method of a named object: one canonical spelling whether the
                # receiver was written directly or through a local alias
                return t.atom('call', tuple(args + kwv), extra=(
                    'fn:' + t.atoms[ra].args[0] + '.' + name,) + kwn)
        if recv_rf is not None:
            args = [recv_rf] + args
            if name not in REDUCERS and name not in ERASED_CALLS:
                return t.atom('mcall', tuple(args + kwv),
                              extra=('fn:' + name,) + kwn)
        if name == 'dict' and recv is None and not args and kw and isinstance(n.func, ast.Name):
            # dict(a=x, b=y) is {'a': x, 'b': y}
            flat = []
            for k_ in n.keywords:
                if k_.arg is None:
                    flat = None
                    break
                flat.append(t.atom('const', (repr(k_.arg),)))
                flat.append(self.expr(k_.value))
            if flat:
                return t.atom('dict', tuple(flat))
        if name == '_guard' and len(args) == 3:
            return t.atom('guard', tuple(args))
        if name == '_alloc' and len(args) == 1:
            return args[0]
        if name in ('_or', '_and'):
            return t.atom('bool', tuple(args), extra='Or' if name == '_or' else 'And')
        if name == 'sum' and recv is None and dotted(n.func) == 'sum' \
                and len(args) == 1 and not kw:
            # builtin sum iterates the first axis
            kwn, kwv = ('axis',), [t.const(0)]
        # numeric normalisations
        if name in ERASED_CALLS and len(args) == 1 and not (getattr(self, 'keep_casts', False) and name == 'float'):
            return args[0]
        if name == 'bool' and recv is None and len(args) == 1 and not kw and args[0].single_atom() is not None and \
                t.atoms[args[0].single_atom()].head in ('cmp', 'bool') or \
                (name == 'bool' and recv is None and len(args) == 1 and not kw and args[0].single_atom() is not None and
                 t.atoms[args[0].single_atom()].head == 'unop' and t.atoms[args[0].single_atom()].extra == 'Not'):
            # bool() of a comparison / conjunction / negation is that truth value
            return args[0]
        if name == 'int' and recv is None and len(args) == 1 and not kw and self._integral(args[0]):
            # int() of a count / an index is that count / index
            return args[0]
        if name == 'map' and recv is None and len(n.args) == 2 and not n.keywords and \
                isinstance(n.args[0], (ast.Name, ast.Attribute)) and not any(isinstance(a, ast.Starred) for a in n.args):
            # map(f, xs) visits f(x) for x in xs
            g_ = ast.GeneratorExp(elt=ast.Call(func=n.args[0], args=[ast.Name(id='_m', ctx=ast.Load())], keywords=[]),
                                  generators=[ast.comprehension(target=ast.Name(id='_m', ctx=ast.Store()), iter=n.args[1],
                                                                ifs=[], is_async=0)])
            ast.copy_location(g_, n)
            ast.fix_missing_locations(g_)
            r_ = self._comp(g_)
            if r_ is not None:
                return r_
        if name == 'list' and recv is None and len(args) == 1 and not kw and args[0].single_atom() is not None and \
                t.atoms[args[0].single_atom()].head == 'comp' and t.atoms[args[0].single_atom()].extra[0] == 'ListComp':
            # list(<comprehension / generator / map>) is the list the comprehension builds
            return args[0]
        if name == 'sqrt' and len(args) == 1:
            return t.atom('sqrt', (args[0],))
        if name in ('power', 'pow') and len(args) == 2 and not kw:
            return self.power(args[0], args[1])
        if name == 'square' and len(args) == 1:
            return args[0] * args[0]
        if recv is None and len(args) == 2 and not kw and dotted(n.func) is not None and \
                dotted(n.func).split('.')[0] in ('np', 'numpy') and name in ('multiply', 'add', 'subtract', 'divide', 'true_divide'):
            # the ufunc spelling of the arithmetic operators
            if name == 'multiply':
                return args[0] * args[1]
            if name == 'add':
                return args[0] + args[1]
            if name == 'subtract':
                return args[0] - args[1]
            if not args[1].is_zero():
                return args[0] / args[1]
        if name in ('logical_and', 'logical_or', 'bitwise_and', 'bitwise_or') and len(args) == 2 and not kw:
            # np.logical_and(a, b) on boolean masks is a & b
            return t.atom('binop', (args[0], args[1]), extra='BitAnd' if name.endswith('and') else 'BitOr')
        if name == 'outer' and len(args) == 2 and not kw and self.erase_broadcast:
            # np.outer(a, b) / np.multiply.outer(a, b) is a[:, None] * b[None, :]; broadcast markers are erased
            return args[0] * args[1]
        if name in ('multiply', 'add', 'subtract', 'divide', 'true_divide') and len(args) == 2 and not kw:
            a_, b_ = args
            if name == 'multiply':
                return a_ * b_
            if name == 'add':
                return a_ + b_
            if name == 'subtract':
                return a_ - b_
            if b_.num:
                return a_ / b_
        if name in ('append', 'concatenate', 'hstack') and recv_rf is None and not kw and \
                (len(args) == 2 if name == 'append' else len(args) == 1):
            # np.append(a, b) joins a and b end to end, like np.concatenate((a, b)) / np.hstack((a, b)) for 1-D
            # operands; in a join the one-element tail x[-1:] and the scalar x[-1] contribute the same single value
            parts = None
            if name == 'append':
                parts = list(args)
            else:
                a0 = args[0].single_atom()
                if a0 is not None and t.atoms[a0].head == 'tuple' and all(isinstance(x, RF) for x in t.atoms[a0].args):
                    parts = list(t.atoms[a0].args)
            if parts is not None:
                def last1(a, at, nargs):
                    if at.head == 'idx' and len(nargs) == 2 and isinstance(nargs[1], Slice) and nargs[1].step is None and \
                            nargs[1].hi is None and nargs[1].lo is not None and nargs[1].lo.const() == -1:
                        return t.atom('idx', (nargs[0], t.const(-1)))
                    return None
                parts = [t.rewrite(x, last1) for x in parts]
                flat = []
                for x in parts:
                    xa = x.single_atom()
                    if xa is not None and t.atoms[xa].head == 'tuple' and all(isinstance(y, RF) for y in t.atoms[xa].args):
                        flat.extend(t.atoms[xa].args)       # a literal [s] joins its items
                    else:
                        flat.append(x)
                return t.atom('call', (t.atom('tuple', tuple(flat)),), extra=('fn:concatenate',))
        if name in ('log', 'log10', 'log2') and len(args) == 1 and not kw:
            return t.log(name, args[0])
        if name in ('exp', 'abs', 'fabs') and len(args) == 1 and not kw:
            return t.atom('abs' if name == 'fabs' else name, (args[0],))
        if name in ('minimum', 'maximum', 'fmin', 'fmax') and len(args) == 2 \
                and not kw:
            args = sorted(args, key=lambda r: t.fmt(r))
        if name in ('min', 'max') and len(args) == 2 and not kw and recv is None:
            args = sorted(args, key=lambda r: t.fmt(r))
        if name in LINEAR_REDUCERS and args and isinstance(args[0], RF) \
                and args[0].num:
            # linearity: constant factors move out of the reduction
            a0 = t.reduce(args[0])
            lead = a0.num[min(a0.num, key=mono_key)]
            dl = a0.den[min(a0.den, key=mono_key)]
            c = lead / dl
            if c != 1:
                inner = RF(t, {m: v / lead for m, v in a0.num.items()},
                           {m: v / dl for m, v in a0.den.items()})
                return t.atom('call', tuple([inner] + args[1:] + kwv),
                              extra=('fn:' + name,) + kwn) * t.const(c)
        return t.atom('call', tuple(args + kwv), extra=('fn:' + name,) + kwn)


LINEAR_REDUCERS = {'sum', 'mean', 'nansum', 'cumsum', 'average'}
REDUCERS = {'sum', 'min', 'max', 'mean', 'cumsum', 'argmax', 'argmin',
            'argsort', 'any', 'all', 'nansum', 'prod'}


def call_atoms(rf, fn):
    """All call atoms named fn (transitively) in rf -> list of Atom"""
    out = []
    for a in sorted(rf.all_atoms()):
        at = rf.tab.atoms[a]
        if at.head in ('call', 'mcall') and at.extra and \
                at.extra[0] == 'fn:' + fn:
            out.append(at)
    return out
