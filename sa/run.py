"""CLI: /venv/bin/python -m sa.run Cxx --tier quick|thorough [--replay file]"""
import argparse
import importlib
import json
import os
import sys
import traceback

sys.path.insert(0, os.path.dirname(os.path.dirname(os.path.abspath(__file__))))

from sa.index import Index, AnalysisError  # noqa: E402
from sa.report import Report  # noqa: E402


def run_property(prop, tier='quick', overrides=None, quiet=False, only=None,
                 base=None, evidence=True, seed=0, census=True):
    """Returns (exit status, Report)."""
    mod = importlib.import_module('rules.' + prop)
    R = Report(prop, tier, quiet=quiet, only=only)
    try:
        ix = Index(overrides=overrides, base=base)
        if ix.parse_errors:
            for rel, err in sorted(ix.parse_errors.items()):
                if any(rel == f or rel.startswith(f) for f in
                       getattr(mod, 'FILES', [rel])):
                    R.error('parse', 'PARSE', rel, 'file parses', err)
        R.info['analysed'] = ix.stats()
        from sa.helpers import set_index, UNFOLLOWED
        set_index(ix)
        UNFOLLOWED.clear()
        mod.run(ix, R)
        if census:
            from sa.branches import census as branch_census
            branch_census(ix, R, {o.site for o in R.obls if '::' in o.site})
        extra = {}
        R.n_quick = len(R.obls)
        if tier == 'thorough' and hasattr(mod, 'run_thorough'):
            mod.run_thorough(ix, R)
        if tier == 'thorough' and overrides is None:
            from sa.selftest import selftest
            extra['selftest'] = selftest(prop, mod, ix, R, seed)
    except AnalysisError as e:
        R.error('engine', 'ENGINE', prop, 'analysis completes', str(e))
        extra = {}
    except Exception as e:  # noqa
        R.error('engine', 'ENGINE', prop, 'analysis completes',
                'internal error: %s\n%s' % (e, traceback.format_exc()))
        extra = {}
    st = R.emit(mod.FLOOR, mod.EXPLANATION, mod.ASSUMPTIONS, mod.NOT_DECIDED,
                extra=extra, seed=seed, evidence=evidence)
    return st, R


def main(argv=None):
    ap = argparse.ArgumentParser()
    ap.add_argument('prop')
    ap.add_argument('--tier', default=os.environ.get('VERIF_TIER', 'quick'))
    ap.add_argument('--replay')
    ap.add_argument('--no-evidence', action='store_true',
                    help='do not rewrite evidence/ (used when trying seeded changes)')
    args = ap.parse_args(argv)
    seed = int(os.environ.get('VERIF_SEED', '0') or 0)
    only = None
    if args.replay:
        with open(args.replay) as fh:
            only = json.load(fh)['obligation']['id']
    try:
        st, _ = run_property(args.prop, args.tier, only=only, seed=seed,
                             evidence=not args.replay and not args.no_evidence)
    except Exception:  # noqa
        print('ANALYSIS-ERROR %s: checker crashed\n%s' % (
            args.prop, traceback.format_exc()))
        st = 2
    sys.stdout.flush()
    os._exit(st)


if __name__ == '__main__':
    main()
