"""reST user-documentation tables (DESIGN 2.7): selector lists and keyword
grid tables of doc/source/user/taurex/*.rst."""
import os
import re

TOKEN = re.compile(r'``([^`]+)``')
BULLET = re.compile(r'^(\s+)-\s+``([^`]+)``\s*$')
CLASSREF = re.compile(r':class:`~?([\w\.]+)`')
ASSIGN = re.compile(r'^``\s*(\w+)\s*=\s*([\w\-\+ ]+?)\s*``')
SUBHDR = re.compile(r'^``\[\[(\w+)\]\]``(?:\s+or\s+``\[\[(\w+)\]\]``)?')
ROW = re.compile(r'^\|\s*``([^`]+)``\s*\|')
UNDER = re.compile(r'^([=\-~\*\^#"])\1{3,}\s*$')


class DocFile:
    def __init__(self, path, text):
        self.path = path
        self.lines = text.split('\n')
        self.selectors = []   # (field, selector, classpath or None, lineno)
        self.sections = []    # dicts: title field selector subheaders classref keywords lineno
        self._parse()

    def _field_before(self, i):
        """last ``token`` in the (up to three) non-blank lines before line i"""
        seen = 0
        j = i - 1
        while j >= 0 and seen < 3:
            if self.lines[j].strip():
                seen += 1
                t = TOKEN.findall(self.lines[j])
                t = [x for x in t if re.match(r'^\w+$', x)]
                if t:
                    return t[-1]
            j -= 1
        return None

    def _parse(self):
        L = self.lines
        i = 0
        cur = None
        while i < len(L):
            ln = L[i]
            b = BULLET.match(ln)
            if b and (i == 0 or not BULLET.match(L[i - 1])):
                # start of a bullet block: a selector list if the bullets carry sub-bullets
                field = self._field_before(i)
                indent0 = len(b.group(1))
                j = i
                block = []
                while j < len(L):
                    bb = BULLET.match(L[j])
                    if bb and len(bb.group(1)) == indent0:
                        sel = bb.group(2)
                        cp = None
                        k = j + 1
                        nsub = 0
                        while k < len(L) and (not L[k].strip() or len(L[k]) - len(L[k].lstrip()) > indent0):
                            if L[k].strip().startswith('-'):
                                nsub += 1
                            c = CLASSREF.search(L[k])
                            if c:
                                cp = c.group(1)
                            k += 1
                        block.append((sel, cp, j + 1, nsub))
                        j = k
                        continue
                    break
                if field and block and all(x[3] > 0 for x in block):
                    for sel, cp, lno, _ in block:
                        self.selectors.append((field, sel, cp, lno))
                i = max(j, i + 1)
                continue
            if i + 1 < len(L) and UNDER.match(L[i + 1]) and ln.strip() and not UNDER.match(ln) \
                    and L[i + 1][0] == '=':
                cur = {'title': ln.strip(), 'field': None, 'selector': None, 'subheaders': [],
                       'classref': None, 'keywords': [], 'lineno': i + 1}
                self.sections.append(cur)
                i += 2
                continue
            if cur is not None and not ln.startswith('..'):
                a = ASSIGN.match(ln.strip())
                if a and cur['field'] is None:
                    cur['field'], cur['selector'] = a.group(1), a.group(2).strip()
                s = SUBHDR.match(ln.strip())
                if s and not cur['subheaders']:
                    cur['subheaders'] = [x for x in s.groups() if x]
                if ln.strip().startswith(':Class:'):
                    c = CLASSREF.search(ln)
                    if c:
                        cur['classref'] = c.group(1)
            if ln.strip() == 'Keywords' and cur is not None:
                j = i + 1
                while j < len(L) and (not L[j].strip() or UNDER.match(L[j]) or
                                      not (L[j].startswith('+') or L[j].startswith('|'))):
                    if L[j].strip() and not UNDER.match(L[j]) and not L[j].startswith(('+', '|')) \
                            and j > i + 4:
                        break
                    j += 1
                while j < len(L) and (L[j].startswith('+') or L[j].startswith('|')):
                    r = ROW.match(L[j])
                    if r:
                        cur['keywords'].append((r.group(1).strip(), j + 1))
                    j += 1
                i = j
                continue
            i += 1


def load_docs(root):
    d = os.path.join(root, 'doc', 'source', 'user', 'taurex')
    out = {}
    if not os.path.isdir(d):
        return out
    for f in sorted(os.listdir(d)):
        if f.endswith('.rst'):
            with open(os.path.join(d, f), encoding='utf-8', errors='replace') as fh:
                out[f] = DocFile('doc/source/user/taurex/' + f, fh.read())
    return out
