"""External API availability (DESIGN 2.7): for every attribute chain rooted at
an imported third-party / stdlib module, ask the *installed* library whether the
name exists.  A module that is not installed is not a finding.  Imports numpy /
scipy / inspect etc. in the checker process; never imports taurex."""
import ast
import importlib

from .algebra import dotted

_MOD = {}


def _load(name):
    if name not in _MOD:
        try:
            _MOD[name] = importlib.import_module(name)
        except Exception:
            _MOD[name] = None
    return _MOD[name]


def missing_external(ix, f):
    """[(node, 'np.int', 'numpy.int')] attribute chains in function f whose
    root is an external module that is installed but lacks the attribute."""
    out = []
    m = f.module
    seen = set()
    for n in ast.walk(f.node):
        if not isinstance(n, ast.Attribute):
            continue
        d = dotted(n)
        if d is None or d in seen:
            continue
        seen.add(d)
        parts = d.split('.')
        root = parts[0]
        # function-local imports are merged into the module import table
        r = m.imports.get(root)
        if r is None:
            continue
        mod, attr = r
        if mod.split('.')[0] == ix.package:
            continue
        chain = ([attr] if attr else []) + parts[1:]
        obj = _load(mod)
        if obj is None:
            continue
        cur = obj
        path = mod
        ok = True
        for a in chain:
            if not hasattr(cur, a):
                # maybe a submodule
                sub = _load(path + '.' + a)
                if sub is None:
                    ok = False
                    break
                cur = sub
            else:
                cur = getattr(cur, a)
            path += '.' + a
        if not ok:
            out.append((n, d, path + '.' + a))
    # names imported with `from X import name`
    for node in ast.walk(f.node):
        if isinstance(node, ast.ImportFrom) and node.level == 0 and node.module and \
                node.module.split('.')[0] != ix.package:
            obj = _load(node.module)
            if obj is None:
                continue
            for al in node.names:
                if al.name != '*' and not hasattr(obj, al.name) and _load(node.module + '.' + al.name) is None:
                    out.append((node, 'from %s import %s' % (node.module, al.name),
                                node.module + '.' + al.name))
    return out


def api_obligations(ix, R, oid, sites, why):
    """One API obligation per anchored function."""
    from .index import AnalysisError
    for site in sites:
        stmt = 'no reference to a name the installed library lacks (%s)' % why
        try:
            f = ix.func(site) if isinstance(site, str) else site
        except AnalysisError as e:
            R.error(oid, 'API', str(site), stmt, str(e))
            continue
        miss = missing_external(ix, f)
        R.check(oid, 'API', f.site, stmt, not miss,
                key='; '.join(sorted({x[1] for x in miss})),
                detail='%s: the installed library has no %s - the function raises AttributeError/ImportError '
                       'on every call' % (sorted({x[1] for x in miss}), sorted({x[2] for x in miss})),
                loc=f.loc(miss[0][0]) if miss else None)
