"""Syntax-directed forward substitution over one function body (DESIGN 2.3).

Walks the statements of a function once, in program order, maintaining for every
local name the normalised expression of its (unique / guarded) reaching
definition, and records *events* - stores, calls, returns, yields, raises,
breaks - each with the loop nest and the guard stack under which it occurs.
Nothing is executed: loops are visited once with the loop variable as an atom
and every name assigned in the loop havocked at the loop head; branches are
both visited and their definitions merged into guard atoms.
"""
import ast
from .algebra import Conv, Table, RF, dotted
from .index import AnalysisError


class Event:
    def __init__(self, kind, node, loops, guards, **kw):
        self.kind = kind
        self.node = node
        self.loops = tuple(loops)
        self.guards = tuple(guards)
        self.trys = ()              # enclosing `try` statements whose BODY contains the event
        self.__dict__.update(kw)

    def __repr__(self):
        return '<Event %s line %s>' % (self.kind, getattr(self.node, 'lineno', '?'))


class Loop:
    def __init__(self, node, kind, var=None, iter_rf=None, range_args=None,
                 iter_ast=None, index=None):
        self.node = node
        self.kind = kind            # 'range' | 'iter' | 'zip' | 'enumerate' | 'while'
        self.var = var              # name of loop variable (or tuple repr)
        self.iter_rf = iter_rf
        self.range_args = range_args  # (lo, hi, step) RFs for range loops
        self.iter_ast = iter_ast
        self.index = index          # RF atom standing for the iteration index


class Guard:
    def __init__(self, test, positive, rf, node=None):
        # one spelling per condition: `if not c` / `if x is not None` / `if a != b` / `if len(x) == 0`
        # are stored as the positive test with the polarity flipped
        if rf is not None and hasattr(rf, 'tab'):
            rf, flipped = rf.tab.canon_cond(rf)
            if flipped:
                positive = not positive
        self.early = False          # pushed because the other side left the block
        self.exit = set()           # ... and how it left ('raise', 'return', 'continue', 'break')
        self.test = test            # ast expr (or None for except)
        self.positive = positive
        self.rf = rf
        self.node = node

    def text(self):
        if self.test is None and self.rf is not None and hasattr(self.rf, 'tab') and \
                getattr(self.rf.tab.atoms[self.rf.single_atom()] if self.rf.single_atom() is not None else None,
                        'head', '') != 'except':
            s = self.rf.tab.fmt(self.rf)[:120]
        else:
            s = ast.unparse(self.test) if self.test is not None else 'except'
        return s if self.positive else 'not (%s)' % s


def assigned_names(stmts):
    out = set()
    for s in stmts:
        for n in ast.walk(s):
            if isinstance(n, (ast.FunctionDef, ast.Lambda)):
                continue
            if isinstance(n, ast.Name) and isinstance(n.ctx, ast.Store):
                out.add(n.id)
    return out


def terminates(stmts):
    """Block always leaves the enclosing block (return/raise/break/continue)."""
    if not stmts:
        return False
    last = stmts[-1]
    if isinstance(last, (ast.Return, ast.Raise, ast.Break, ast.Continue)):
        return True
    if isinstance(last, ast.If):
        return terminates(last.body) and terminates(last.orelse)
    return False


def exit_kinds(stmts):
    """how a terminating block leaves: subset of {'return','raise','break','continue'}"""
    if not stmts:
        return set()
    last = stmts[-1]
    if isinstance(last, ast.Return):
        return {'return'}
    if isinstance(last, ast.Raise):
        return {'raise'}
    if isinstance(last, ast.Break):
        return {'break'}
    if isinstance(last, ast.Continue):
        return {'continue'}
    if isinstance(last, ast.If):
        return exit_kinds(last.body) | exit_kinds(last.orelse)
    return set()


class Flow:
    def __init__(self, func, conv=None, canon=None, params_as=None):
        """func: FuncInfo.  params_as: optional {param: RF} substitution."""
        self.func = func
        self.tab = conv.tab if conv else Table()
        self.conv = Conv(self.tab, dict(conv.env) if conv else {},
                         canon or (conv.canon if conv else None),
                         on_call=self._on_call)
        if params_as:
            self.conv.env.update(params_as)
        self.events = []
        self.loops = []
        self.guards = []
        self._nloop = 0
        self._cur_stmt = None
        self.assign_log = {}   # name -> list of (node, RF)
        self.ran = False

    # ------------------------------------------------------------------
    def run(self):
        if not self.ran:
            self._top = True
            self.block(self.func.body())
            self.ran = True
        return self

    def ev(self, kind, node, **kw):
        e = Event(kind, node, self.loops, self.guards, stmt=self._cur_stmt, **kw)
        e.trys = tuple(getattr(self, '_trys', ()))
        e.validated = tuple(getattr(self, '_valid', ()))   # earlier `if bad: raise` checks that dominate the event
        self.events.append(e)
        return e

    def of(self, kind):
        return [e for e in self.events if e.kind == kind]

    def _on_call(self, node, name, recv, args, kw, recv_rf=None):
        # a local container changed in place (xs.append(v), d.update(e) ...) no longer has the value it was bound to
        # (the binding is kept - rules identify a container by its allocation - but walking it, or handing it back
        # from an inlined helper, yields a run-time built sequence, not the literal it started as)
        if name in self.MUTATORS and isinstance(recv, ast.Name) and isinstance(self.env.get(recv.id), RF):
            self._mutated = getattr(self, '_mutated', set()) | {recv.id}
        frf = self.env.get(node.func.id) if isinstance(node.func, ast.Name) else None
        if isinstance(node.func, ast.Subscript):
            frf = self.expr(node.func)          # a callable picked out of a sequence: item[3](value)
        if frf is None and recv_rf is not None and name is not None:
            # a callable taken from a record field that is an item of a row: _Row._make(row).fset(value) calls row[3]
            cand = self.tab.atom('getattr', (recv_rf, name))
            ca_ = cand.single_atom()
            if ca_ is not None and self.tab.atoms[ca_].head == 'idx':
                frf = cand
        if name == 'searchsorted' and recv_rf is not None:
            # the method spelling is the function spelling with the array first (as in Conv.call)
            args = [recv_rf] + list(args)
            recv_rf = None
        self.ev('call', node, name=name, recv=recv, args=args, kw=dict(kw),
                fn=dotted(node.func), recv_rf=recv_rf, func_rf=frf if isinstance(frf, RF) else None)
        return self._inline(node, name, recv, args, kw)

    # ------------------------------------------------------------------
    # Calls to functions that did not exist in the reviewed tree (rules/known_functions.json) are followed:
    # their statements are analysed as if written at the call site (parameters bound to the actual arguments,
    # events recorded under the caller's loops and guards, the returned expression substituted), so that
    # extracting a helper from an anchored function does not hide the code from the rules.  Functions that the
    # rules were written against stay opaque calls.
    MAX_INLINE_DEPTH = 3
    MUTATORS = {'append', 'extend', 'insert', 'update', 'pop', 'remove', 'sort', 'reverse', 'clear', 'add',
                'setdefault', 'popitem', 'discard'}

    def _new_helper(self, node, name, recv):
        ix = getattr(self, 'ix', None)
        known = getattr(self, 'known', None)
        if ix is None or known is None or name is None or getattr(self, '_depth', 0) >= self.MAX_INLINE_DEPTH:
            return None, False
        g, bound = None, False
        f = self.func
        d = dotted(node.func)
        if recv is None and d is not None and '.' not in d:
            if d in self.env:
                # a closure defined in this function, new to the reviewed tree, called by name: followed like a helper,
                # its free variables reading the current definitions
                va = self.env[d].single_atom() if isinstance(self.env[d], RF) else None
                if va is None or self.tab.atoms[va].head != 'localdef' or '%s.%s' % (f.site, d) in known:
                    return None, False
                defs = [n for n in ast.walk(f.node) if isinstance(n, (ast.FunctionDef, ast.AsyncFunctionDef))
                        and n.name == d and n is not f.node]
                if len(defs) != 1 or not isinstance(defs[0], ast.FunctionDef) or defs[0].decorator_list:
                    return None, False
                a = defs[0].args
                if a.vararg or a.kwarg or a.kwonlyargs or a.posonlyargs:
                    return None, False
                if any(isinstance(n, (ast.Yield, ast.YieldFrom, ast.Await, ast.Nonlocal, ast.Global)) for n in ast.walk(defs[0])):
                    return None, False
                from .index import FuncInfo
                g = FuncInfo(f.module, f.qualname + '.' + d, defs[0], cls=None, parent=f)
                g._closure = True
                return g, False
            r = ix.resolve_name(f.module, d)
            if r is None and f.parent is not None:
                r = None
            if hasattr(r, 'qualname') and hasattr(r, 'node') and not hasattr(r, 'methods'):
                g = r
        elif d is not None and d.split('.')[0] in ('self', 'cls') and d.count('.') == 1 and self._owner_cls() is not None:
            g = ix.lookup_method(self._owner_cls(), name)
            bound = True
            if g is not None:
                for c in ix.subclasses(g.cls, strict=True):
                    if name in c.methods:
                        return None, False          # overridden somewhere: not a unique callee
        elif d is not None and d.count('.') == 1 and d.split('.')[0] not in self.env:
            # ClassName.helper(...) where helper is a static method of a class of the analysed tree
            r = ix.resolve_name(f.module, d.split('.')[0])
            if hasattr(r, 'methods'):
                g = ix.lookup_method(r, name)
                if g is not None and 'staticmethod' not in g.decorators():
                    g = None
                if g is not None:
                    for c in ix.subclasses(g.cls, strict=True):
                        if name in c.methods:
                            return None, False
        if g is None or g.site in known or g.node is f.node:
            return None, False
        decs = [x for x in g.decorators() if x not in ('staticmethod', 'classmethod')]
        if decs:
            return None, False
        if bound and 'staticmethod' in g.decorators():
            bound = False
        a = g.node.args
        if a.vararg or a.kwarg or a.kwonlyargs or a.posonlyargs:
            return None, False
        for n in ast.walk(g.node):
            if isinstance(n, (ast.Yield, ast.YieldFrom, ast.Await)):
                return None, False
        return g, bound

    def _owner_cls(self):
        # a closure defined in a method sees the method's `self`
        f = self.func
        while f is not None and f.cls is None and getattr(f, 'parent', None) is not None:
            f = f.parent
        return f.cls if f is not None else None

    def _inline(self, node, name, recv, args, kw):
        g, bound = self._new_helper(node, name, recv)
        if g is None:
            return None
        r = self._inline_body(g, bound, node, args, kw)
        if r is None:
            # a function that is new to the reviewed tree and that could not be followed
            self.unfollowed = getattr(self, 'unfollowed', []) + [g.site]
        return r

    def _inline_body(self, g, bound, node, args, kw):
        t = self.tab
        names = g.params()
        if bound and names:
            names = names[1:]
        # f(*xs): the items of xs fill the remaining positional parameters
        stars = [i for i, a in enumerate(args) if isinstance(a, RF) and a.single_atom() is not None and
                 t.atoms[a.single_atom()].head == 'star']
        if len(stars) == 1 and not kw:
            i = stars[0]
            xs = t.atoms[args[i].single_atom()].args[0]
            m = len(names) - (len(args) - 1)
            if m >= 0:
                args = list(args[:i]) + [t.atom('idx', (xs, t.const(j))) for j in range(m)] + list(args[i + 1:])
        elif stars:
            return None
        if len(args) > len(names):
            return None
        env = {}
        for n_, v in zip(names, args):
            env[n_] = v
        for k, v in kw:
            if k not in names or k in env:
                return None
            env[k] = v
        defs = g.node.args.defaults
        for n_, dflt in zip(names[len(names) - len(defs):] if defs else [], defs):
            if n_ not in env:
                env[n_] = Conv(t, {}, self.conv.canon).expr(dflt)
        if any(n_ not in env for n_ in names):
            return None
        for k, v in self.env.items():
            if k.startswith('@'):
                env[k] = v
        if getattr(g, '_closure', False):
            # free variables of a closure read the enclosing definitions as they stand at the call
            for k, v in self.env.items():
                if k not in env:
                    env[k] = v
        child = Flow(g, Conv(t, env, self.conv.canon))
        from .consts import add_module_constants
        add_module_constants(child.conv, g.module, self.known)
        child.conv.forward_attrs = getattr(self.conv, 'forward_attrs', False)
        child.conv.keep_casts = getattr(self.conv, 'keep_casts', False)
        child.conv.erase_broadcast = self.conv.erase_broadcast
        child.ix, child.known = self.ix, self.known
        child._depth = getattr(self, '_depth', 0) + 1
        child._nloop = self._nloop + 100 * child._depth
        child._nalloc = {}
        child._alloc_prefix = '%s%s.' % (getattr(self, '_alloc_prefix', ''), g.name)
        try:
            child.run()
        except AnalysisError:
            return None
        # a `return` inside the callee's last statement, when that statement is a loop, leaves the loop and
        # the helper and nothing else: for the caller it is a `break`
        body = g.body()
        last = body[-1] if body else None
        inside = set()
        if isinstance(last, (ast.For, ast.While)):
            inside = {id(n) for n in ast.walk(last)}
            seen_g = set()
            for e in child.events:
                for x in e.guards:
                    if id(x) in seen_g:
                        continue
                    seen_g.add(id(x))
                    if x.early and x.exit == {'return'} and id(x.node) in inside and not any(
                            isinstance(r, ast.Return) and r.value is not None for r in ast.walk(x.node)):
                        x.exit = {'break'}
        pl, pg = tuple(self.loops), tuple(self.guards)
        pt = tuple(getattr(self, '_trys', ()))
        pv = tuple(getattr(self, '_valid', ()))
        rets = []
        for e in child.events:
            e.inlined = g.qualname
            if e.kind == 'return':
                rets.append(e)
                if not (isinstance(last, (ast.For, ast.While)) and id(e.node) in inside and e.value is None and e.loops):
                    continue
                e.kind = 'break'          # leaves the helper's trailing loop: a break for the caller
            e.loops = pl + e.loops
            e.guards = pg + e.guards
            e.trys = pt + e.trys
            e.validated = pv + getattr(e, 'validated', ())
            self.events.append(e)
        for k, v in child.env.items():
            if k.startswith('@'):
                self.env[k] = v
        self.inlined = getattr(self, 'inlined', [])
        self.inlined.append(g.site)
        if getattr(child, '_top_valid', None):
            self._pending_valid = list(getattr(self, '_pending_valid', [])) + list(child._top_valid)
        # the value of the call
        none = t.atom('const', ('None',))
        if not rets:
            return none
        rets = [r for r in rets if r.kind == 'return']
        if not rets:
            return none
        if any(r.loops for r in rets):
            return None
        val = None
        for r in reversed(rets):
            pcs = [x for x in r.guards if not x.early and x.rf is not None]
            ecs = [x for x in r.guards if x.early and x.rf is not None]
            v = r.value if r.value is not None else none
            if isinstance(getattr(r, 'value_ast', None), ast.Name) and r.value_ast.id in getattr(child, '_mutated', ()):
                v = t.atom('mutated', (v,))
            if not pcs:
                val = v if val is None or not ecs else val if False else v
                continue
            if val is None:
                val = none
            for x in reversed(pcs):
                v = t.atom('guard', (x.rf, v, val) if x.positive else (x.rf, val, v))
            val = v
        return val

    def expr(self, n):
        return self.conv.expr(n)

    @property
    def env(self):
        return self.conv.env

    # ------------------------------------------------------------------
    def block(self, stmts):
        """Process statements; returns True if the block terminates."""
        pushed = 0
        pushed_v = 0
        top = getattr(self, '_top', False)
        self._top = False
        for i, s in enumerate(stmts):
            self._cur_stmt = s
            if isinstance(s, ast.If):
                t = self.if_(s)
                if t == 'both':
                    for _ in range(pushed):
                        self.guards.pop()
                    self._popv(pushed_v)
                    return True
                if t in ('body', 'orelse'):
                    # the rest of this block runs only when the non-terminating
                    # side was taken
                    test_rf = self._if_rf
                    g = Guard(s.test, t == 'orelse', test_rf, s)
                    g.early = True
                    g.exit = exit_kinds(s.body if t == 'body' else s.orelse)
                    self.assume(test_rf, t == 'orelse')
                    if g.exit == {'raise'}:
                        # `if bad: raise` is input validation: what follows is not "conditional" in any sense a
                        # rule cares about (the rejected input has no behaviour), so no guard is recorded
                        self._valid = list(getattr(self, '_valid', [])) + [g]
                        pushed_v += 1
                        continue
                    self.guards.append(g)
                    pushed += 1
                pushed_v += self._take_pending()
                continue
            self.stmt(s)
            pushed_v += self._take_pending()
            if isinstance(s, (ast.Return, ast.Raise, ast.Break, ast.Continue)):
                for _ in range(pushed):
                    self.guards.pop()
                if top and isinstance(s, ast.Return):
                    # the function's final `return`: the validations made on the way hold for whoever called it
                    self._top_valid = list(getattr(self, '_valid', []))[-pushed_v:] if pushed_v else []
                self._popv(pushed_v)
                return True
        for _ in range(pushed):
            self.guards.pop()
        if top:
            self._top_valid = list(getattr(self, '_valid', []))[-pushed_v:] if pushed_v else []
        self._popv(pushed_v)
        return False

    def _popv(self, n):
        if n:
            self._valid = list(self._valid)[:-n]

    def _take_pending(self):
        """validations established by an inlined helper (it raised, or it returned): they hold for the rest of
        the caller's block"""
        pend = getattr(self, '_pending_valid', None)
        if not pend:
            return 0
        self._valid = list(getattr(self, '_valid', [])) + list(pend)
        self._pending_valid = []
        return len(pend)

    def if_(self, s):
        test_rf = self.expr(s.test)
        self._if_rf = test_rf
        self.ev('if', s, test=test_rf)
        env0 = dict(self.env)
        # `if bad: raise ... else: work` / `if ok: work else: raise ...`: the side that does the work is not
        # "conditional" - the other side rejects the input - so its test is recorded as a validation, not a guard
        body_rejects = terminates(s.body) and exit_kinds(s.body) == {'raise'}
        else_rejects = False       # `if mode == 'a': ... else: raise` is a dispatch: its test stays a guard

        def push(g, validation):
            g.early = validation
            if validation:
                g.exit = {'raise'}
                self._valid = list(getattr(self, '_valid', [])) + [g]
            else:
                self.guards.append(g)

        def pop(validation):
            if validation:
                self._valid = list(self._valid)[:-1]
            else:
                self.guards.pop()
        push(Guard(s.test, True, test_rf, s), else_rejects and not body_rejects)
        self.assume(test_rf, True)
        tb = self.block(s.body)
        pop(else_rejects and not body_rejects)
        env_b = dict(self.env)
        self.conv.env.clear()
        self.conv.env.update(env0)
        self.assume(test_rf, False)
        push(Guard(s.test, False, test_rf, s), body_rejects and not else_rejects)
        to = self.block(s.orelse) if s.orelse else False
        pop(body_rejects and not else_rejects)
        env_o = dict(self.env)
        self._if_rf = test_rf
        if tb and to:
            return 'both'
        if tb:
            self.conv.env.clear()
            self.conv.env.update(env_o)
            return 'body'
        if to:
            self.conv.env.clear()
            self.conv.env.update(env_b)
            return 'orelse'
        # merge
        merged = {}
        for k in set(env_b) | set(env_o):
            a = env_b.get(k)
            b = env_o.get(k)
            if a is not None and b is not None and (a is b or self.tab.equal(a, b)):
                merged[k] = a
            else:
                # a name with no local definition on one side denotes the
                # parameter / global of that name
                ua = a if a is not None else self.tab.name(k)
                ub = b if b is not None else self.tab.name(k)
                merged[k] = self.tab.atom('guard', (test_rf, ua, ub))
        self.conv.env.clear()
        self.conv.env.update(merged)
        return None

    ALLOC_FNS = ('fn:zeros', 'fn:ones', 'fn:empty', 'fn:zeros_like',
                 'fn:ones_like', 'fn:empty_like', 'fn:full')

    def fresh(self, name, value_rf):
        """A fresh array allocation gets its own identity (two zeros() calls
        are two buffers even when their shapes are equal)."""
        self._nalloc = getattr(self, '_nalloc', {})
        self._nalloc[name] = self._nalloc.get(name, 0) + 1
        return self.tab.atom('alloc', (value_rf, '%s%s#%d' % (getattr(self, '_alloc_prefix', ''), name,
                                                               self._nalloc[name])))

    def _freshen(self, name, rf):
        """fresh identity for an allocation, also when it arrives as the two arms of a selection
        (`zeros(a) if c else zeros(b)`, or a helper that returns one of two allocations)"""
        if self.is_alloc(rf):
            return self.fresh(name, rf)
        a = rf.single_atom()
        if a is not None and self.tab.atoms[a].head == 'guard':
            c, p, q = self.tab.atoms[a].args
            if isinstance(p, RF) and isinstance(q, RF) and (self.is_alloc(p) or self.is_alloc(q)):
                return self.tab.atom('guard', (c, self._freshen(name, p), self._freshen(name, q)))
        return rf

    def is_alloc(self, rf):
        a = rf.single_atom()
        if a is None:
            return False
        at = self.tab.atoms[a]
        if at.head == 'call' and at.extra and at.extra[0] in self.ALLOC_FNS:
            return True
        if at.head == 'tuple' and not at.args:
            return True
        return False

    def assume(self, test_rf, truth):
        """Inside a branch where test_rf is known, guard atoms on the same
        condition collapse to the taken side."""
        tab = self.tab
        has = [k for k, v in self.env.items() if isinstance(v, RF) and
               v.mentions(lambda a: a.head == 'guard')]
        if not has:
            return

        test_rf, flipped = tab.canon_cond(test_rf)
        if flipped:
            truth = not truth

        def f(a, at, nargs):
            if at.head == 'guard' and tab.arg_eq(nargs[0], test_rf):
                return nargs[1] if truth else nargs[2]
            if at.head == 'guard' and isinstance(nargs[0], RF) and nargs[0].single_atom() is not None:
                # the known test is one operand of the selection's condition: `known and rest` / `known or rest`
                ca = tab.atoms[nargs[0].single_atom()]
                if ca.head == 'bool' and ca.extra in ('And', 'Or') and any(tab.arg_eq(x, test_rf) for x in ca.args):
                    rest = [x for x in ca.args if not tab.arg_eq(x, test_rf)]
                    if ca.extra == 'And' and not truth:
                        return nargs[2]
                    if ca.extra == 'Or' and truth:
                        return nargs[1]
                    if rest:
                        c2 = rest[0] if len(rest) == 1 else tab.atom('bool', tuple(rest), extra=ca.extra)
                        return tab.atom('guard', (c2, nargs[1], nargs[2]))
            return None
        for k in has:
            self.env[k] = tab.rewrite(self.env[k], f)

    def bind(self, target, value_rf, node, op=None):
        t = self.tab
        if isinstance(target, ast.Name):
            if op is None:
                value_rf = self._freshen(target.id, value_rf)
            self.env[target.id] = value_rf
            self.assign_log.setdefault(target.id, []).append((node, value_rf))
            self.ev('assign', node, name=target.id, value=value_rf, op=op)
        elif isinstance(target, (ast.Tuple, ast.List)):
            va = value_rf.single_atom()
            elts = None
            if va is not None and t.atoms[va].head == 'tuple' and \
                    len(t.atoms[va].args) == len(target.elts):
                elts = t.atoms[va].args
            star = [i for i, e in enumerate(target.elts) if isinstance(e, ast.Starred)]
            if star:
                # a, *rest, z = X : a = X[0], rest = the items X[1:-1], z = X[-1] (names after the star count from the end)
                from .algebra import Slice
                si = star[0]
                after = len(target.elts) - si - 1
                known = None
                if va is not None and t.atoms[va].head == 'tuple' and len(t.atoms[va].args) >= len(target.elts) - 1 and \
                        all(isinstance(x, RF) for x in t.atoms[va].args):
                    known = t.atoms[va].args
                for i, e in enumerate(target.elts):
                    if i < si:
                        self.bind(e, known[i] if known else t.atom('idx', (value_rf, t.const(i))), node)
                    elif i == si:
                        if known:
                            v_ = t.atom('tuple', tuple(known[si:len(known) - after]))
                        else:
                            v_ = t.atom('idx', (value_rf, Slice(t.const(si) if si else None,
                                                               t.const(-after) if after else None, None)))
                        self.bind(e.value, v_, node)
                    else:
                        k_ = i - len(target.elts)
                        self.bind(e, known[k_] if known else t.atom('idx', (value_rf, t.const(k_))), node)
                return
            for i, e in enumerate(target.elts):
                self.bind(e, elts[i] if elts else
                          t.atom('idx', (value_rf, t.const(i))), node)
        elif isinstance(target, ast.Subscript) and isinstance(
                target.value, ast.Name) and self._whole(target):
            # X[...] = v  /  X[:] = v : the buffer is refilled; from here on the
            # name denotes a fresh buffer holding v
            name = target.value.id
            old = self.env.get(name)
            new = self.fresh(name, value_rf)
            self.env[name] = new
            self.ev('reset', node, name=name, value=value_rf, old=old, new=new)
        elif isinstance(target, (ast.Subscript, ast.Attribute)):
            # a store target denotes a location: never distribute the index
            self.conv.no_distribute = True
            fa = getattr(self.conv, 'forward_attrs', False)
            if isinstance(target, ast.Attribute):
                self.conv.forward_attrs = False     # the target names a location, not the value stored there before
            try:
                trf = self.expr(target)
            finally:
                self.conv.no_distribute = False
                self.conv.forward_attrs = fa
            self.ev('store', node, target=trf, target_ast=target, op=op,
                    value=value_rf)
            d = dotted(target)
            if d is not None:
                # attribute store: later reads of the same path see the value
                self.attr_store(d, value_rf)
        else:
            raise AnalysisError('unsupported assignment target %s at %s' %
                                (ast.unparse(target), self.func.loc(node)))

    @staticmethod
    def _whole(target):
        sl = target.slice
        items = list(sl.elts) if isinstance(sl, ast.Tuple) else [sl]
        for it in items:
            if isinstance(it, ast.Constant) and it.value is Ellipsis:
                continue
            if isinstance(it, ast.Slice) and it.lower is None and \
                    it.upper is None and it.step is None:
                continue
            return False
        return True

    def attr_store(self, d, value_rf):
        """With forward_attrs, a later read of the same attribute path sees
        the stored value (so `old = self.x; self.x = f(old)` distinguishes old
        and new).  Off by default: most rules want attributes symbolic."""
        if getattr(self.conv, 'forward_attrs', False):
            self.env['@' + self.conv.canon(d)] = value_rf

    def stmt(self, s):
        t = self.tab
        if isinstance(s, ast.Assign):
            v = self.expr(s.value)
            for tg in s.targets:
                self.bind(tg, v, s)
        elif isinstance(s, ast.AnnAssign):
            if s.value is not None:
                self.bind(s.target, self.expr(s.value), s)
        elif isinstance(s, ast.AugAssign):
            v = self.expr(s.value)
            opn = type(s.op).__name__
            if isinstance(s.target, ast.Name):
                cur = self.env.get(s.target.id, t.name(s.target.id))
                if opn == 'Add':
                    new = cur + v
                elif opn == 'Sub':
                    new = cur - v
                elif opn == 'Mult':
                    new = cur * v
                elif opn == 'Div':
                    new = cur / v
                else:
                    new = t.atom('binop', (cur, v), extra=opn)
                self.env[s.target.id] = new
                self.assign_log.setdefault(s.target.id, []).append((s, new))
                self.ev('aug', s, name=s.target.id, op=opn, value=v, new=new)
            else:
                self.conv.no_distribute = True
                try:
                    trf = self.expr(s.target)
                finally:
                    self.conv.no_distribute = False
                if opn == 'Sub':
                    # x[i] -= v is the accumulation x[i] += -v
                    opn, v = 'Add', -v
                self.ev('store', s, target=trf, target_ast=s.target, op=opn,
                        value=v)
                d = dotted(s.target)
                if d is not None and getattr(self.conv, 'forward_attrs', False) and opn == 'Add':
                    self.env['@' + self.conv.canon(d)] = trf + v
        elif isinstance(s, ast.Expr):
            if isinstance(s.value, (ast.Yield, ast.YieldFrom)):
                v = self.expr(s.value.value) if s.value.value else None
                self.ev('yield', s, value=v, value_ast=s.value.value)
            else:
                v = self.expr(s.value)
                self.ev('exprstmt', s, value=v)
        elif isinstance(s, ast.Return):
            v = self.expr(s.value) if s.value is not None else None
            self.ev('return', s, value=v, value_ast=s.value)
        elif isinstance(s, ast.Raise):
            v = self.expr(s.exc) if s.exc is not None else None
            self.ev('raise', s, value=v, exc_ast=s.exc)
        elif isinstance(s, ast.Break):
            self.ev('break', s)
        elif isinstance(s, ast.Continue):
            self.ev('continue', s)
        elif isinstance(s, ast.For):
            self.for_(s)
        elif isinstance(s, ast.While):
            self.havoc(assigned_names(s.body))
            lp = Loop(s, 'while')
            self.loops.append(lp)
            test_rf = self.expr(s.test)
            self.guards.append(Guard(s.test, True, test_rf, s))
            self.block(s.body)
            self.guards.pop()
            self.loops.pop()
            self.havoc(assigned_names(s.body), after=True)
            if s.orelse:
                self.block(s.orelse)
        elif isinstance(s, ast.With):
            for it in s.items:
                v = self.expr(it.context_expr)
                if it.optional_vars is not None:
                    self.bind(it.optional_vars, t.atom('enter', (v,)), s)
            self.block(s.body)
        elif isinstance(s, ast.Try):
            self.ev('try', s)
            self._trys = list(getattr(self, '_trys', [])) + [s]
            self.block(s.body)
            self._trys = self._trys[:-1]
            env_after = dict(self.env)
            for h in s.handlers:
                self.guards.append(Guard(None, True, t.atom(
                    'except', (ast.unparse(h.type) if h.type else '*',)), h))
                if h.name:
                    self.env[h.name] = t.atom('exc', (h.name,))
                self.block(h.body)
                self.guards.pop()
            # names assigned in handlers are havocked
            hn = set()
            for h in s.handlers:
                hn |= assigned_names(h.body)
            self.conv.env.clear()
            self.conv.env.update(env_after)
            self.havoc(hn, after=True)
            self.block(s.orelse)
            self.block(s.finalbody)
        elif isinstance(s, (ast.FunctionDef, ast.AsyncFunctionDef, ast.ClassDef)):
            self.env[s.name] = t.atom('localdef', (s.name,))
            self.ev('def', s, name=s.name)
        elif isinstance(s, (ast.Import, ast.ImportFrom, ast.Pass, ast.Global,
                            ast.Nonlocal)):
            pass
        elif isinstance(s, ast.Assert):
            self.ev('assert', s, test=self.expr(s.test))
        elif isinstance(s, ast.Delete):
            for tg in s.targets:
                if isinstance(tg, ast.Name):
                    self.env.pop(tg.id, None)
        elif isinstance(s, ast.If):
            self.if_(s)
        else:
            raise AnalysisError('unsupported statement %s at %s' %
                                (type(s).__name__, self.func.loc(s)))

    def havoc(self, names, after=False):
        for n in names:
            if n in self.env or after:
                self._nh = getattr(self, '_nh', 0) + 1
                self.env[n] = self.tab.atom('phi', (n, str(self._nh)))

    def for_(self, s):
        t = self.tab
        self._nloop += 1
        body_names = assigned_names(s.body)
        tnames = assigned_names([ast.Expr(value=s.target)]) if False else {
            n.id for n in ast.walk(s.target) if isinstance(n, ast.Name)}
        self.havoc(body_names - tnames)
        it = s.iter
        lp = None
        fn = dotted(it.func) if isinstance(it, ast.Call) else None
        idx_atom = t.name('@i%d' % self._nloop)
        if fn == 'range':
            args = [self.expr(a) for a in it.args]
            if len(args) == 1:
                ra = (t.const(0), args[0], t.const(1))
            elif len(args) == 2:
                ra = (args[0], args[1], t.const(1))
            else:
                ra = tuple(args[:3])
            if not isinstance(s.target, ast.Name):
                raise AnalysisError('range loop with non-name target at %s' %
                                    self.func.loc(s))
            lp = Loop(s, 'range', var=s.target.id, range_args=ra, iter_ast=it,
                      index=t.name(s.target.id))
            self.env[s.target.id] = t.name(s.target.id)
            self.ev('assign', s, name=s.target.id, value=self.env[s.target.id],
                    op='for')
        elif fn == 'zip' and isinstance(s.target, (ast.Tuple, ast.List)) and \
                len(s.target.elts) == len(it.args):
            seqs = [self.expr(a) for a in it.args]
            lp = Loop(s, 'zip', var=ast.unparse(s.target), iter_rf=seqs,
                      iter_ast=it, index=idx_atom)
            for e, q in zip(s.target.elts, seqs):
                self.bind(e, t.atom('elem', (q, idx_atom)), s, op='for')
        elif fn == 'enumerate' and isinstance(s.target, (ast.Tuple, ast.List)) \
                and len(s.target.elts) == 2 and len(it.args) >= 1:
            seq = self.expr(it.args[0])
            lp = Loop(s, 'enumerate', var=ast.unparse(s.target), iter_rf=[seq],
                      iter_ast=it, index=idx_atom)
            self.bind(s.target.elts[0], idx_atom, s, op='for')
            inner = it.args[0]
            ifn = dotted(inner.func) if isinstance(inner, ast.Call) else None
            if ifn == 'zip' and isinstance(s.target.elts[1], (ast.Tuple, ast.List)) \
                    and len(s.target.elts[1].elts) == len(inner.args):
                for e, a in zip(s.target.elts[1].elts, inner.args):
                    self.bind(e, t.atom('elem', (self.expr(a), idx_atom)), s,
                              op='for')
            elif ifn == 'zip':
                self.bind(s.target.elts[1], t.atom('tuple', tuple(
                    t.atom('elem', (self.expr(a), idx_atom)) for a in inner.args)),
                    s, op='for')
            else:
                self.bind(s.target.elts[1], t.atom('elem', (seq, idx_atom)), s,
                          op='for')
        else:
            seq = self.expr(it)
            if isinstance(it, ast.Name) and it.id in getattr(self, '_mutated', ()):
                seq = t.atom('mutated', (seq,))
            lp = Loop(s, 'iter', var=ast.unparse(s.target), iter_rf=[seq],
                      iter_ast=it, index=idx_atom)
            self.bind(s.target, t.atom('elem', (seq, idx_atom)), s, op='for')
        self.loops.append(lp)
        self.ev('loop', s, loop=lp)
        env_before = None
        if lp.kind == 'range' and lp.range_args[0].const() == 0 and lp.range_args[2].const() == 1:
            # inside `for i in range(N)` the body runs only when 0 < N: selections made on that test before the loop
            # are settled in the body (and only there: the definitions are put back after the loop)
            env_before = dict(self.env)
            self.assume(t.atom('cmp', (t.const(0), lp.range_args[1]), extra=('Lt',)), True)
        self.block(s.body)
        self.loops.pop()
        if env_before is not None:
            for k_, v_ in env_before.items():
                if k_ not in body_names and k_ not in tnames and k_ in self.env:
                    self.env[k_] = v_
        self.havoc(body_names | tnames, after=True)
        if s.orelse:
            self.block(s.orelse)


def flow_of(func, canon=None, tab=None, env=None):
    conv = Conv(tab or Table(), env or {}, canon)
    return Flow(func, conv).run()
