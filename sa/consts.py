"""Module-level names that stand for one constant value (see add_module_constants)."""
import ast


def add_module_constants(conv, module, known, skip=()):
    """numeric / word constants of `module` that are new to the reviewed tree stand for their value in conv.env
    (replacing a literal by a named constant changes nothing)"""
    if known is None:
        return
    from .algebra import Conv
    for nm, val in _module_constants(module):
        if '%s::=%s' % (module.relpath, nm) not in known and nm not in conv.env and nm not in skip:
            conv.env[nm] = Conv(conv.tab, dict(conv.env), conv.canon).expr(val)


def _module_constants(module):
    """(name, value expression) of the module-level names that stand for one constant: bound exactly once, at module
    level, to a literal expression over numbers, words, imported names (KBOLTZ, PI ...) and earlier such names; never
    declared global in a function of the module"""
    cached = getattr(module, '_sa_consts', None)
    if cached is not None:
        return cached
    bound = {}
    imported = set()
    for st in ast.walk(module.tree):
        if isinstance(st, ast.Global):
            for nm in st.names:
                bound[nm] = bound.get(nm, 0) + 2
    for st in module.tree.body:
        if isinstance(st, ast.ImportFrom):
            imported |= {a.asname or a.name for a in st.names}
        for x in ast.walk(st) if not isinstance(st, (ast.FunctionDef, ast.AsyncFunctionDef, ast.ClassDef)) else [st]:
            if isinstance(x, ast.Name) and isinstance(x.ctx, (ast.Store, ast.Del)):
                bound[x.id] = bound.get(x.id, 0) + 1
            elif isinstance(x, (ast.FunctionDef, ast.AsyncFunctionDef, ast.ClassDef)):
                bound[x.name] = bound.get(x.name, 0) + 1
    out = []
    ok = set()
    for st in module.tree.body:
        if isinstance(st, ast.Assign) and len(st.targets) == 1 and isinstance(st.targets[0], ast.Name) and \
                bound.get(st.targets[0].id) == 1 and \
                _numeric_literal(st.value, (imported - set(bound)) | ok):
            out.append((st.targets[0].id, st.value))
            ok.add(st.targets[0].id)
    module._sa_consts = out
    return out


def _numeric_literal(n, names=()):
    if isinstance(n, ast.Name) and n.id in names:
        return True
    if isinstance(n, ast.Call) and isinstance(n.func, ast.Name) and n.func.id in ('frozenset', 'set', 'tuple', 'list') and \
            len(n.args) == 1 and not n.keywords and isinstance(n.args[0], (ast.Tuple, ast.List, ast.Set)):
        return _numeric_literal(n.args[0], names)
    if isinstance(n, ast.Set):
        return bool(n.elts) and all(_numeric_literal(e, names) or (isinstance(e, ast.Constant) and isinstance(e.value, str))
                                    for e in n.elts)
    if isinstance(n, (ast.Tuple, ast.List)):
        # a literal tuple / list of words or numbers (e.g. the boolean words of the parser)
        return bool(n.elts) and all(_numeric_literal(e, names) or (isinstance(e, ast.Constant) and isinstance(e.value, str))
                                    for e in n.elts)
    if isinstance(n, ast.Constant):
        return isinstance(n.value, (int, float)) and not isinstance(n.value, bool)
    if isinstance(n, ast.UnaryOp) and isinstance(n.op, (ast.USub, ast.UAdd)):
        return _numeric_literal(n.operand, names)
    if isinstance(n, ast.BinOp) and isinstance(n.op, (ast.Add, ast.Sub, ast.Mult, ast.Div, ast.Pow)):
        return _numeric_literal(n.left, names) and _numeric_literal(n.right, names)
    return False
