"""Space / unit tags (DESIGN 2.5): a flat lattice over normal-form expressions.
Tags: 'Pa', 'log10Pa', 'um', 'cm-1', ...; None = unknown (permissive);
'CONFLICT:<a>/<b>' = two different known tags meet."""
from .algebra import RF, Slice, p_atom

PRESERVE = {'fn:min', 'fn:max', 'fn:amin', 'fn:amax', 'fn:sorted', 'fn:abs', 'fn:array',
            'fn:minimum', 'fn:maximum', 'fn:ones_like', 'fn:zeros_like', 'fn:sort'}
LOG = {'Pa': 'log10Pa'}
EXP = {'log10Pa': 'Pa'}


def join(a, b):
    if a is None:
        return b
    if b is None:
        return a
    if a == b:
        return a
    if str(a).startswith('CONFLICT'):
        return a
    if str(b).startswith('CONFLICT'):
        return b
    return 'CONFLICT:%s/%s' % (a, b)


class Units:
    def __init__(self, tab, seeds):
        """seeds: list of (RF, tag)"""
        self.tab = tab
        self.seeds = seeds

    def seed(self, rf):
        for s, t in self.seeds:
            if self.tab.equal(rf, s):
                return t
        return None

    def tag(self, rf):
        if not isinstance(rf, RF):
            return None
        s = self.seed(rf)
        if s is not None:
            return s
        a = rf.single_atom()
        if a is None:
            if rf.const() is not None:
                return None
            # a sum / product: every tagged atom must agree (offsets such as
            # +w/2 in the same space keep the tag; pure scale factors are unknown)
            res = None
            for x in rf.atoms():
                res = join(res, self.tag(RF(self.tab, p_atom(x))))
            # multiplication by another array changes the quantity: only keep
            # the tag for affine forms with constant coefficients
            for m in list(rf.num) + list(rf.den):
                if sum(e for _, e in m) > 1:
                    return None if not str(res).startswith('CONFLICT') else res
            return res
        at = self.tab.atoms[a]
        h = at.head
        if h in ('log10',):
            inner = self.tag(at.args[0])
            if inner is None:
                return None
            return LOG.get(inner, 'CONFLICT:log10(%s)' % inner)
        if h == 'pow':
            base = at.args[0].const()
            if base == 10:
                inner = self.tag(at.args[1])
                return EXP.get(inner) if inner else None
            return None
        if h in ('idx', 'elem', 'alloc', 'getattr'):
            return self.tag(at.args[0])
        if h == 'guard':
            return join(self.tag(at.args[1]), self.tag(at.args[2]))
        if h == 'tuple':
            res = None
            for x in at.args:
                res = join(res, self.tag(x))
            return res
        if h == 'call' and at.extra and at.extra[0] in PRESERVE:
            res = None
            for x in at.args:
                if isinstance(x, RF):
                    res = join(res, self.tag(x))
            return res
        return None

    def sentinel_tests(self, rf):
        """cmp atoms of the form X < 0 inside rf -> [(X, tag(X))]"""
        out = []
        for a in rf.all_atoms():
            at = self.tab.atoms[a]
            if at.head == 'cmp' and len(at.args) == 2 and at.extra[0] in ('Lt', 'LtE') and \
                    at.args[1].const() == 0:
                out.append((at.args[0], self.tag(at.args[0])))
        return out
