"""Self-test of a property's checker on in-memory variants of the current tree
(DESIGN section 6).  Variants are source overrides handed to the Index; nothing
is written to /repo or executed.

A rules module lists
  MUTANTS     = [(name, relpath, old, new, expect_obligation_or_None), ...]
  EQUIVALENTS = [(name, relpath, old, new), ...]
`old` must occur exactly once in the ast.unparse()-normalised text of the file; a variant whose
`old` no longer occurs is reported as stale (the tree moved on), not as a
failure.  A mutant must still compile and must turn at least one obligation
that was OK on the unchanged tree into VIOLATION / ANALYSIS-ERROR (the named one
if given).  An equivalent must leave every obligation status unchanged.
"""
import ast
import multiprocessing
import os
import warnings

from .report import OK, VIOL, ERR, KNOWN

_G = {}
_NORM = {}


def _norm(ix, rel):
    if rel not in ix.modules:
        return None
    if rel not in _NORM:
        _NORM[rel] = ast.unparse(ix.modules[rel].tree)
    return _NORM[rel]


_RAW = {}


def _raw(ix, rel):
    """the module as written (formatting aside): what the index parsed, before sa/normalise.py rewrote it"""
    if rel not in ix.modules:
        return None
    if rel not in _RAW:
        with warnings.catch_warnings():
            warnings.simplefilter('ignore')
            _RAW[rel] = ast.unparse(ast.parse(ix.modules[rel].source))
    return _RAW[rel]


def _statuses(R):
    """{(oid, site, statement): worst status} - several obligations may share
    a key (e.g. four gathers in one function); the worst one represents it."""
    n = getattr(R, 'n_quick', len(R.obls))
    rank = {OK: 0, KNOWN: 1, ERR: 2, VIOL: 3}
    out = {}
    for o in R.obls[:n]:
        k = (o.oid, o.site, o.statement)
        if k not in out or rank[o.status] > rank[out[k]]:
            out[k] = o.status
    return out


def _seed_overrides(ix, sid, corpus='seeded'):
    """texts of the files touched by <corpus>/<sid>/patch.diff after applying it to
    copies of the current tree's files in a throw-away directory (never in /repo)"""
    import re, shutil, subprocess, tempfile
    here = os.path.dirname(os.path.dirname(os.path.abspath(__file__)))
    pth = os.path.join(here, corpus, sid, 'patch.diff')
    text = open(pth).read()
    rels = sorted(set(re.findall(r'^\+\+\+ b/(\S+)', text, flags=re.M)))
    tmp = tempfile.mkdtemp(prefix='sa-seed-')
    try:
        created = set(re.findall(r'^--- /dev/null\n\+\+\+ b/(\S+)', text, flags=re.M))
        for rel in rels:
            src = os.path.join(ix.root, rel)
            os.makedirs(os.path.dirname(os.path.join(tmp, rel)), exist_ok=True)
            if rel in created:
                continue            # a file the change adds (a function moved to a new module)
            if not os.path.exists(src):
                return None, 'file %s is gone' % rel
            shutil.copy(src, os.path.join(tmp, rel))
        r = subprocess.run(['patch', '-p1', '-s', '-f', '-d', tmp, '-i', pth], capture_output=True, text=True)
        if r.returncode != 0:
            return None, 'patch no longer applies'
        return {rel: open(os.path.join(tmp, rel)).read() for rel in rels if rel.endswith('.py')}, ''
    finally:
        shutil.rmtree(tmp, ignore_errors=True)


def _one_seed(args):
    kind, sid, expect = args
    from .run import run_property
    ix = _G['ix']
    ov, why = _seed_overrides(ix, sid)
    if ov is None:
        return (kind, sid, 'stale', why)
    st, R = run_property(_G['prop'], 'quick', overrides=ov, quiet=True, base=ix, evidence=False)
    base = _G['base']
    now = _statuses(R)
    fired = sorted({k[0] for k, v in now.items() if v == VIOL and base.get(k) != VIOL})
    if not fired:
        return (kind, sid, 'missed', 'seeded change %s is not reported (expected %s)' % (sid, expect))
    return (kind, sid, 'killed', ', '.join(fired))


def _one_benign(args):
    """a behaviour-preserving change (benign/<id>) that this property's check passed silently when benign/MATRIX.json
    was last regenerated must still pass silently"""
    kind, bid, _ = args
    from .run import run_property
    ix = _G['ix']
    ov, why = _seed_overrides(ix, bid, corpus='benign')
    if ov is None:
        return (kind, bid, 'stale', why)
    st, R = run_property(_G['prop'], 'quick', overrides=ov, quiet=True, base=ix, evidence=False)
    base = _G['base']
    now = _statuses(R)
    changed = sorted({'%s %s' % (v, k[0]) for k, v in now.items() if v in (VIOL, ERR) and base.get(k) != v})
    if changed:
        return (kind, bid, 'false-alarm', ', '.join(changed))
    return (kind, bid, 'silent', '')


def _one(args):
    if args[0] == 'seed':
        return _one_seed(args)
    if args[0] == 'benign':
        return _one_benign(args)
    kind, name, rel, old, new, expect = args
    from .run import run_property
    ix = _G['ix']
    # variants are written against the *normalised* module text
    # (ast.unparse), so repository formatting does not matter
    src = _raw(ix, rel)
    if src is not None and not old.startswith('re:') and old != '\1direct' and src.count(old) != 1 and \
            (_norm(ix, rel) or '').count(old) == 1:
        src = _norm(ix, rel)        # a variant written against the normal form of the module
    if src is not None and old == '\1direct':
        msrc = new
    elif src is not None and old.startswith('re:'):
        # whole-file regular-expression rewrite (e.g. renaming a local everywhere)
        import re
        msrc, n = re.subn(old[3:], new, src)
        if n == 0:
            return (kind, name, 'stale', 'regex matches nothing in %s' % rel)
    elif src is None or src.count(old) != 1:
        return (kind, name, 'stale', 'pattern occurs %s times in %s' % (
            0 if src is None else src.count(old), rel))
    else:
        msrc = src.replace(old, new)
    try:
        with warnings.catch_warnings():
            warnings.simplefilter('ignore')
            compile(msrc, rel, 'exec')
    except SyntaxError as e:
        return (kind, name, 'broken-variant', 'does not compile: %s' % e)
    st, R = run_property(_G['prop'], 'quick', overrides={rel: msrc}, quiet=True,
                         base=ix, evidence=False)
    base = _G['base']
    now = _statuses(R)
    changed = []
    for k, v in now.items():
        if base.get(k) != v:
            changed.append((k[0], base.get(k), v))
    for k, v in base.items():
        if k not in now:
            changed.append((k[0], v, 'absent'))
    if kind == 'mutant':
        bad = [c for c in changed if c[2] in (VIOL, ERR, 'absent')]
        if not bad:
            return (kind, name, 'missed', 'no obligation changed to a failure')
        if expect and not any(c[0].endswith(expect) or c[0] == expect
                              for c in bad):
            return (kind, name, 'killed-elsewhere',
                    'expected %s, fired %s' % (expect, sorted({c[0] for c in bad})))
        viol = any(c[2] == VIOL for c in bad)
        return (kind, name, 'killed' if viol else 'killed-as-analysis-error',
                ', '.join(sorted({c[0] for c in bad})))
    else:
        if changed:
            return (kind, name, 'false-alarm', str(sorted(changed)))
        return (kind, name, 'silent', '')


def _guard_variants(mod, ix):
    """UNCONDITIONAL = [(relpath, statement prefix), ...]: each named simple statement,
    wrapped in `if _SWEEP_:` (so that it may be skipped), must be reported."""
    out = []
    for ent in getattr(mod, 'UNCONDITIONAL', []):
        rel, prefix = ent[0], ent[1]
        which = ent[2] if len(ent) > 2 else None        # k-th of several identical statements
        src = _raw(ix, rel)
        name = 'skip:%s:%s' % (rel.rsplit('/', 1)[-1], prefix[:40])
        if src is None:
            out.append((name, rel, '\0missing', '', None))
            continue
        lines = src.split('\n')
        if prefix.endswith('$'):
            hits = [i for i, l in enumerate(lines) if l.strip() == prefix[:-1]]
        else:
            hits = [i for i, l in enumerate(lines) if l.strip().startswith(prefix)]
        if which is not None and which < len(hits):
            hits = [hits[which]]
            name += '#%d' % which
        if len(hits) != 1:
            out.append((name, rel, '\0%d matches' % len(hits), '', None))
            continue
        l = lines[hits[0]]
        ind = l[:len(l) - len(l.lstrip())]
        lines[hits[0]] = ind + 'if _SWEEP_:\n' + ind + '    ' + l.strip()
        out.append((name, rel, '\1direct', '\n'.join(lines), None))
    return out


def selftest(prop, mod, ix, R, seed=0):
    muts = list(getattr(mod, 'MUTANTS', [])) + _guard_variants(mod, ix)
    eqs = list(getattr(mod, 'EQUIVALENTS', []))
    jobs = [('mutant',) + tuple(m) for m in muts] + \
           [('equiv',) + tuple(e) + (None,) for e in eqs]
    # confirmed seeded changes (seeded/<id>/) that this property's check is on record as reporting
    import json
    here = os.path.dirname(os.path.dirname(os.path.abspath(__file__)))
    sdir = os.path.join(here, 'seeded')
    seeds = []
    for sid in sorted(os.listdir(sdir)) if os.path.isdir(sdir) else []:
        mp = os.path.join(sdir, sid, 'meta.json')
        if os.path.exists(mp):
            nf = json.load(open(mp)).get('now_fires', {})
            if prop in nf:
                seeds.append(('seed', sid, nf[prop]))
    jobs += seeds
    muts = muts + [(j[1],) for j in seeds]
    # independent behaviour-preserving changes (benign/) that this check is on record as passing silently
    bpath = os.path.join(here, 'benign', 'MATRIX.json')
    benign = []
    if os.path.exists(bpath):
        bm = json.load(open(bpath))
        for bid in sorted(bm):
            v = bm[bid]
            if v.get('applies') and prop not in v.get('violations', {}) and prop not in v.get('errors', {}) and \
                    prop not in v.get('crash', {}) and os.path.exists(os.path.join(here, 'benign', bid, 'patch.diff')):
                touched = open(os.path.join(here, 'benign', bid, 'patch.diff')).read()
                files = getattr(mod, 'FILES', None)
                # only the changes that touch a file this property analyses
                import re as _re
                rels = _re.findall(r'^\+\+\+ b/(\S+)', touched, flags=_re.M)
                if files is None or any(r == f or r.startswith(f) for r in rels for f in files):
                    benign.append(('benign', bid, None))
    jobs += benign
    eqs = eqs + [(j[1],) for j in benign]
    if not jobs:
        return {'variants': 0}
    _G.update(ix=ix, prop=prop, base=_statuses(R))
    nproc = min(16, len(jobs), os.cpu_count() or 1)
    if nproc > 1:
        ctx = multiprocessing.get_context('fork')
        with ctx.Pool(nproc) as pool:
            res = pool.map(_one, jobs, chunksize=1)
    else:
        res = [_one(j) for j in jobs]
    summary = {'variants': len(jobs), 'mutants': len(muts),
               'equivalents': len(eqs), 'killed': 0, 'killed_as_error': 0,
               'missed': [], 'silent': 0, 'false_alarms': [], 'stale': [],
               'details': []}
    for kind, name, verdict, info in res:
        summary['details'].append('%s %s: %s %s' % (kind, name, verdict, info))
        if verdict in ('killed', 'killed-elsewhere'):
            summary['killed'] += 1
        elif verdict == 'killed-as-analysis-error':
            summary['killed_as_error'] += 1
        elif verdict == 'missed':
            summary['missed'].append(name)
        elif verdict == 'silent':
            summary['silent'] += 1
        elif verdict == 'false-alarm':
            summary['false_alarms'].append(name + ': ' + info)
        else:
            summary['stale'].append(name + ': ' + info)
    # a checker that misses its own mutants or alarms on an equivalent rewrite
    # is not to be believed: ANALYSIS-ERROR, never VIOLATION
    if summary['missed']:
        R.error('selftest', 'SELF', prop, 'every seeded mutant is detected',
                'missed: %s' % ', '.join(summary['missed']))
    else:
        R.ok('selftest.mutants', 'SELF', prop,
             '%d/%d mutants detected (%d stale)' % (
                 summary['killed'] + summary['killed_as_error'], len(muts),
                 len([s for s in summary['stale']])))
    if summary['false_alarms']:
        R.error('selftest.equiv', 'SELF', prop,
                'behaviour-preserving rewrites stay silent',
                'false alarms: %s' % '; '.join(summary['false_alarms']))
    elif eqs:
        R.ok('selftest.equiv', 'SELF', prop,
             '%d/%d behaviour-preserving rewrites silent' % (
                 summary['silent'], len(eqs)))
    return summary
