"""Call graph with class-hierarchy analysis (DESIGN 2.1/2.7).

Edges are an over-approximation: `self.m()` resolves along the MRO of the
enclosing class and to every override in its subclasses; a call through a
receiver of a known family resolves to every implementation in that family;
a call on an unknown receiver resolves to every method of that name in the
scope directories; bare names resolve through the module's import table.
Property reads of `self.x` / family attributes resolve to @property bodies.
"""
import ast

from .algebra import dotted
from .index import FuncInfo, ClassInfo
from .canon import FAMILY

LOG_METHODS = {'debug', 'info', 'warning', 'error', 'critical'}


class CallGraph:
    def __init__(self, ix, scope_dirs, family=None, generic_names=True):
        self.ix = ix
        self.scope = tuple(scope_dirs)
        self.family = dict(FAMILY)
        if family:
            self.family.update(family)
        self.generic_names = generic_names
        self._by_name = {}
        for c in ix.all_classes():
            if not c.module.relpath.startswith(self.scope):
                continue
            for name, lst in c.methods.items():
                for f in lst:
                    self._by_name.setdefault(name, []).append(f)
        self._edges = {}

    def in_scope(self, f):
        return f.module.relpath.startswith(self.scope)

    def methods_named(self, name):
        return self._by_name.get(name, [])

    def family_impls(self, clsname, name):
        try:
            base = self.ix.find_class(clsname)
        except Exception:
            return []
        out = []
        for c in self.ix.subclasses(base):
            for f in c.methods.get(name, []):
                out.append(f)
        # inherited implementation above the family base
        f = self.ix.lookup_method(base, name)
        if f is not None and f not in out:
            out.append(f)
        return out

    def self_impls(self, cls, name):
        out = []
        f = self.ix.lookup_method(cls, name)
        if f is not None:
            out.append(f)
        for c in self.ix.subclasses(cls, strict=True):
            for g in c.methods.get(name, []):
                if g not in out:
                    out.append(g)
        return out

    def callees(self, f):
        """[(FuncInfo, call node, how)] for function f (nested defs included)."""
        key = id(f.node)
        if key in self._edges:
            return self._edges[key]
        out = []
        m = f.module
        body_nodes = []
        for st in f.node.body:
            body_nodes.extend(ast.walk(st))
        for n in body_nodes:
            if isinstance(n, ast.Subscript) and isinstance(n.ctx, ast.Load):
                d = dotted(n.value)
                if d is not None:
                    fam = self.family.get(d.split('.')[-1])
                    if fam is not None:
                        for g in self.family_impls(fam, '__getitem__'):
                            out.append((g, n, 'getitem'))
            if isinstance(n, ast.Call):
                fn = n.func
                if isinstance(fn, ast.Name):
                    r = self.ix.resolve_name(m, fn.id)
                    if isinstance(r, FuncInfo):
                        out.append((r, n, 'name'))
                    elif isinstance(r, ClassInfo):
                        init = self.ix.lookup_method(r, '__init__')
                        if init is not None:
                            out.append((init, n, 'ctor'))
                elif isinstance(fn, ast.Attribute):
                    name = fn.attr
                    if name in LOG_METHODS:
                        continue
                    d = dotted(fn.value)
                    if isinstance(fn.value, ast.Call) and dotted(fn.value.func) == 'super' \
                            and f.cls is not None:
                        g = self.ix.lookup_method(f.cls, name, after=f.cls)
                        if g is not None:
                            out.append((g, n, 'super'))
                        continue
                    if d == 'self' and f.cls is not None:
                        for g in self.self_impls(f.cls, name):
                            out.append((g, n, 'self'))
                        continue
                    if d is not None:
                        parts = d.split('.')
                        # module function via module alias
                        r = self.ix.resolve_expr(m, fn)
                        if isinstance(r, FuncInfo):
                            out.append((r, n, 'module'))
                            continue
                        if isinstance(r, tuple) and r[0] == 'ext':
                            continue
                        last = parts[-1]
                        fam = self.family.get(last)
                        if fam is None and parts[0] == 'self' and f.cls is not None and len(parts) == 2:
                            tg = self.ix.trivial_getter(f.cls, last)
                            fam = self.family.get(tg) if tg else None
                        if fam is not None:
                            for g in self.family_impls(fam, name):
                                out.append((g, n, 'family'))
                            continue
                    if self.generic_names:
                        for g in self.methods_named(name):
                            out.append((g, n, 'by-name'))
            elif isinstance(n, ast.Attribute) and isinstance(n.ctx, ast.Load):
                # property reads
                d = dotted(n.value)
                name = n.attr
                cands = []
                if d == 'self' and f.cls is not None:
                    cands = self.self_impls(f.cls, name)
                elif d is not None:
                    last = d.split('.')[-1]
                    fam = self.family.get(last)
                    if fam is None and d.startswith('self.') and f.cls is not None:
                        tg = self.ix.trivial_getter(f.cls, last)
                        fam = self.family.get(tg) if tg else None
                    if fam is not None:
                        cands = self.family_impls(fam, name)
                for g in cands:
                    if any(x == 'property' or x.startswith(('fitparam', 'derivedparam'))
                           for x in g.decorators()):
                        out.append((g, n, 'property'))
        self._edges[key] = out
        return out

    def reach(self, roots, stop=None):
        """{id(node): (FuncInfo, parent FuncInfo or None)} reachable from roots,
        restricted to scope."""
        seen = {}
        todo = [(r, None) for r in roots]
        while todo:
            f, par = todo.pop()
            k = id(f.node)
            if k in seen:
                continue
            if not self.in_scope(f):
                continue
            if stop is not None and stop(f):
                continue
            seen[k] = (f, par)
            for g, node, how in self.callees(f):
                if id(g.node) not in seen:
                    todo.append((g, f))
        return seen

    def path_to(self, reach, f):
        out = []
        cur = f
        while cur is not None and len(out) < 12:
            out.append(cur.qualname)
            cur = reach.get(id(cur.node), (None, None))[1]
        return ' <- '.join(out)


def raises_in(f):
    """Explicit raise statements in f (not in nested defs): (node, exc name)"""
    out = []
    todo = list(f.node.body)
    while todo:
        n = todo.pop()
        if isinstance(n, (ast.FunctionDef, ast.AsyncFunctionDef, ast.ClassDef, ast.Lambda)):
            continue
        if isinstance(n, ast.Raise):
            e = n.exc
            if isinstance(e, ast.Call):
                e = e.func
            out.append((n, dotted(e) if e is not None else None))
        todo.extend(ast.iter_child_nodes(n))
    return out
