#!/bin/bash
# run the 20 quick checks in parallel without touching evidence; print the ones that do not exit 0
cd /verif
for i in $(seq -w 1 20); do ( /venv/bin/python -m sa.run C$i --tier quick --no-evidence > /tmp/q_C$i.log 2>&1 || echo "C$i exit $?" ) & done; wait
