"""Write rules/known_functions.json: the sites of every function of the CURRENT (reviewed) tree.  Functions that are
not in this list are new to the rules and are followed (inlined) at their call sites by sa/flow.py.
Run only on a reviewed tree; never run by a registered check."""
import json, os, sys
sys.path.insert(0, os.path.dirname(os.path.dirname(os.path.abspath(__file__))))
from sa.index import Index
ix = Index()
import ast
sites = {f.site for f in ix.all_functions()}
# nested functions (closures): 'path::Outer.inner' - a closure that is new to the reviewed tree and called by name in its
# enclosing function is followed like any other new helper
for f in list(ix.all_functions()):
    for n in ast.walk(f.node):
        if isinstance(n, (ast.FunctionDef, ast.AsyncFunctionDef)) and n is not f.node:
            sites.add('%s.%s' % (f.site, n.name))
# module-level names, so that a constant introduced later can be told apart from one the specs already name
for rel, m in ix.modules.items():
    for st in m.tree.body:
        if isinstance(st, ast.Assign):
            for t in st.targets:
                if isinstance(t, ast.Name):
                    sites.add('%s::=%s' % (rel, t.id))
sites = sorted(sites)
json.dump(sites, open(os.path.join(os.path.dirname(os.path.dirname(os.path.abspath(__file__))), 'rules', 'known_functions.json'), 'w'), indent=0)
print(len(sites), 'functions')
