"""Apply a seeded patch to /repo, run every quick check (no evidence rewrite), report which fire, undo the patch.
usage: tools/try_seed.py <patch.diff> [--keep]"""
import subprocess, sys, concurrent.futures, json, os
patch=sys.argv[1]
props=['C%02d'%i for i in range(1,21)]
def sh(*a, **k): return subprocess.run(a, capture_output=True, text=True, **k)
st=sh('git','-C','/repo','status','--porcelain')
if st.stdout.strip():
    print('/repo is not clean:', st.stdout); sys.exit(3)
r=sh('git','-C','/repo','apply',patch)
if r.returncode!=0:
    print('patch does not apply:', r.stderr); sys.exit(3)
try:
    def run(p):
        r=sh('/venv/bin/python','-m','sa.run',p,'--tier','quick','--no-evidence',cwd='/verif')
        lines=[l for l in r.stdout.split('\n') if l.startswith(('VIOLATION ','ANALYSIS-ERROR'))]
        return p,r.returncode,lines
    with concurrent.futures.ThreadPoolExecutor(16) as ex:
        res=list(ex.map(run,props))
    fired=[(p,rc,l) for p,rc,l in res if rc!=0]
    for p,rc,l in fired:
        print('%s exit=%d'%(p,rc))
        for x in l[:6]: print('   ',x[:230])
    if not fired: print('NO CHECK FIRED')
finally:
    sh('git','-C','/repo','checkout','--','.')
    sh('git','-C','/repo','clean','-fdq')
