"""Regenerate rules/licences.json: for every function that carries an obligation of some property, the
normalised conditions under which its statements run on the CURRENT tree.  Run only on a tree whose branches
have been reviewed (the output is the reference for sa/branches.py); never run by a registered check.
usage: tools/gen_licences.py [--diff]   (--diff: show what would change, write nothing)"""
import json, os, sys
sys.path.insert(0, os.path.dirname(os.path.dirname(os.path.abspath(__file__))))
from sa.index import Index
from sa.run import run_property
from sa.branches import conditions_of, TABLE
ix = Index()
sites = set()
for i in range(1, 21):
    p = 'C%02d' % i
    st, R = run_property(p, 'quick', quiet=True, evidence=False, census=False)
    sites |= {o.site for o in R.obls if '::' in o.site}
out = {}
for s in sorted(sites):
    try:
        f, c = conditions_of(ix, s)
    except Exception as e:
        continue
    out[s] = {'conditions': sorted(c), 'subjects': sorted({x for v in c.values() for x in v[3]})}
old = json.load(open(TABLE)) if os.path.exists(TABLE) else {}
for s in sorted(set(out) | set(old)):
    a, b = set((old.get(s) or {}).get('conditions', []) if isinstance(old.get(s), dict) else old.get(s, [])), set(out.get(s, {}).get('conditions', []))
    if a != b:
        print(s, '\n   -', sorted(a - b), '\n   +', sorted(b - a))
if '--diff' not in sys.argv:
    json.dump(out, open(TABLE, 'w'), indent=0, sort_keys=True)
    print('%d functions, %d conditions' % (len(out), sum(len(v['conditions']) for v in out.values())))
