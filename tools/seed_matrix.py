"""Apply every /verif/seeded/<id>/patch.diff to /repo in turn, run all 20 quick checks (no evidence rewrite),
undo the patch, and record which obligations fire.  Writes seeded/MATRIX.json and seeded/MATRIX.md.
usage: tools/seed_matrix.py [seed-id ...]"""
import subprocess, sys, concurrent.futures, json, os, re
props = ['C%02d' % i for i in range(1, 21)]
def sh(*a, **k): return subprocess.run(a, capture_output=True, text=True, **k)
if sh('git', '-C', '/repo', 'status', '--porcelain').stdout.strip():
    print('/repo is not clean'); sys.exit(3)
ids = sys.argv[1:] or sorted(os.listdir('/verif/seeded'))
ids = [i for i in ids if os.path.exists('/verif/seeded/%s/patch.diff' % i)]
def run(p):
    r = sh('/venv/bin/python', '-m', 'sa.run', p, '--tier', 'quick', '--no-evidence', cwd='/verif')
    v = re.findall(r'^VIOLATION +(\S+) ', r.stdout, flags=re.M)
    v = [x for x in v if not x.startswith('property=')]
    e = re.findall(r'^ANALYSIS-ERROR +(\S+)', r.stdout, flags=re.M)
    return p, r.returncode, sorted(set(v)), sorted(set(e))
out = {}
path = '/verif/seeded/MATRIX.json'
if sys.argv[1:] and os.path.exists(path):
    out = json.load(open(path))
for sid in ids:
    r = sh('git', '-C', '/repo', 'apply', '/verif/seeded/%s/patch.diff' % sid)
    if r.returncode:
        print(sid, 'does not apply', r.stderr); out[sid] = {'applies': False}; continue
    try:
        with concurrent.futures.ThreadPoolExecutor(16) as ex:
            res = list(ex.map(run, props))
    finally:
        sh('git', '-C', '/repo', 'checkout', '--', '.'); sh('git', '-C', '/repo', 'clean', '-fdq')
    own = sid[:3]
    fired = {p: {'exit': rc, 'violations': v, 'analysis_errors': e} for p, rc, v, e in res if rc != 0}
    out[sid] = {'applies': True, 'fired': fired,
                'caught_by_own_property': fired.get(own, {}).get('exit') == 1,
                'caught': any(f['exit'] == 1 for f in fired.values())}
    print(sid, 'caught' if out[sid]['caught'] else 'MISSED', {p: f['violations'] or f['analysis_errors'] for p, f in fired.items()})
json.dump(out, open(path, 'w'), indent=1, sort_keys=True)
meta = {}
for sid in sorted(out):
    mp = '/verif/seeded/%s/meta.json' % sid
    meta[sid] = json.load(open(mp)) if os.path.exists(mp) else {}
with open('/verif/seeded/MATRIX.md', 'w') as f:
    f.write('| seed | change | firing obligations (quick tier) |\n|---|---|---|\n')
    for sid in sorted(out):
        o = out[sid]
        fr = '; '.join('%s' % ', '.join(v['violations'] or ['exit 2: ' + ', '.join(v['analysis_errors'])]) for p, v in sorted(o.get('fired', {}).items())) or '**missed**'
        f.write('| %s | %s | %s |\n' % (sid, meta[sid].get('title', ''), fr))
n = sum(1 for o in out.values() if o.get('caught'))
print('%d/%d seeded changes reported as violations' % (n, len(out)))
