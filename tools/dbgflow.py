"""Print the events of one function's flow, optionally with a patch applied in memory.
usage: tools/dbgflow.py <site> [<patch.diff>] [--kinds store,assign,return]"""
import os, sys, warnings
sys.path.insert(0, os.path.dirname(os.path.dirname(os.path.abspath(__file__))))
warnings.filterwarnings('ignore')
from sa.index import Index
from sa.helpers import mkflow, fmt, set_index
from tools.try_patch import overrides
args = sys.argv[1:]
kinds = None
if '--kinds' in args:
    i = args.index('--kinds'); kinds = args[i + 1].split(','); del args[i:i + 2]
ix = Index()
if len(args) > 1:
    ov, why = overrides(ix.root, args[1])
    ix = Index(overrides=ov) if ov is not None else ix
set_index(ix)
fl = mkflow(ix, args[0])
for e in fl.events:
    if kinds and e.kind not in kinds:
        continue
    tgt = getattr(e, 'target', None)
    print(e.kind, getattr(e, 'name', None) or (fmt(fl, tgt) if tgt is not None else ''), '<-',
          fmt(fl, e.value)[:300] if getattr(e, 'value', None) is not None else None,
          '| guards', [ (fmt(fl, g[0])[:60], g[1]) if isinstance(g, tuple) else g for g in (getattr(e, 'guards', None) or [])][:4])
print('unfollowed', getattr(fl, 'unfollowed', None))
