"""Developer aid: print a repo file (or one function) without docstrings."""
import ast, sys, warnings
warnings.simplefilter('ignore')
def strip(t):
    for n in ast.walk(t):
        if isinstance(n,(ast.FunctionDef,ast.ClassDef,ast.Module)):
            b=n.body
            if b and isinstance(b[0],ast.Expr) and isinstance(b[0].value,ast.Constant) and isinstance(b[0].value.value,str):
                n.body=b[1:] or [ast.Pass()]
    return t
path=sys.argv[1]; want=sys.argv[2:] 
t=strip(ast.parse(open('/repo/'+path).read()))
if not want:
    print(ast.unparse(t))
else:
    for n in ast.walk(t):
        if isinstance(n,(ast.FunctionDef,ast.ClassDef)) and n.name in want:
            print('# line',n.lineno); print(ast.unparse(n)); print()
