#!/bin/bash
# usage: tools/replay_seed.sh <seed-id> [--suite]
# Re-confirms one seeded change outside /repo: a scratch worktree of /repo's HEAD is created under $TMPDIR,
# the demonstration must exit 0 there, the patch is applied, the demonstration must then exit non-zero
# (and with --suite the pinned test-suite must still pass every BASELINE stable_pass test).
# The worktree is removed afterwards.
id=$1; d=/verif/seeded/$id
[ -f $d/patch.diff ] || { echo "no such seed $id"; exit 9; }
wt=$(mktemp -d ${TMPDIR:-/tmp}/seedwt-XXXXXX); rmdir $wt
git -C /repo worktree add -q --detach $wt HEAD || exit 9
trap 'git -C /repo worktree remove --force $wt; rm -rf $SEED_SCRATCH' EXIT
export PYTHONPATH=$wt SEED_SCRATCH=$(mktemp -d ${TMPDIR:-/tmp}/seedscratch-XXXXXX)
cd $wt
timeout 900 /venv/bin/python $d/demo.py > $SEED_SCRATCH/clean.log 2>&1; c=$?
git apply $d/patch.diff || { echo "apply_failed"; exit 1; }
timeout 900 /venv/bin/python $d/demo.py > $SEED_SCRATCH/seeded.log 2>&1; s=$?
echo "$id demo_clean_exit=$c demo_seeded_exit=$s"
tail -3 $SEED_SCRATCH/seeded.log | sed 's/^/    /'
rc=0; [ $c -eq 0 ] && [ $s -ne 0 ] || rc=1
if [ "$2" = "--suite" ]; then
  timeout 3000 /venv/bin/python -m pytest -ra -q -p no:cacheprovider --timeout=900 --continue-on-collection-errors --junitxml=$SEED_SCRATCH/junit.xml > $SEED_SCRATCH/pytest.log 2>&1
  /venv/bin/python - $SEED_SCRATCH/junit.xml <<'PY' || rc=1
import json,sys,xml.etree.ElementTree as ET
b=json.load(open('/root/.vp/BASELINE.json'))
t=ET.parse(sys.argv[1]).getroot(); r={}
for tc in t.iter('testcase'):
    r[tc.get('classname')+'::'+tc.get('name')]=not any(c.tag in('failure','error','skipped') for c in tc)
miss=[n for n in b['stable_pass'] if not r.get(n)]
print('    stable_pass_ok=%d/%d missing=%s'%(len(b['stable_pass'])-len(miss),len(b['stable_pass']),miss))
sys.exit(1 if miss else 0)
PY
fi
exit $rc
