#!/bin/bash
# usage: WT_ROOT=/tmp/wt3 tools/verify_batch.sh "C D" C04 C07 ...   -- verify_seed.sh for each id and label, ids in parallel
labels=$1; shift
for id in "$@"; do
  ( for l in $labels; do [ -f ${WT_ROOT:-/tmp/wt}/${id}_out/$l.diff ] && /verif/tools/verify_seed.sh $id $l > /dev/null 2>&1; done ) &
done
wait
for id in "$@"; do for l in $labels; do cat ${WT_ROOT:-/tmp/wt}/${id}_out/verify_$l.txt 2>/dev/null | tr '\n' ' '; echo; done; done
