#!/bin/bash
# run the 20 thorough checks (4 at a time: each uses a worker pool), evidence untouched; print the ones that do not exit 0
cd /verif
run() { /venv/bin/python -m sa.run $1 --tier thorough --no-evidence > /tmp/t_$1.log 2>&1 || echo "$1 exit $?"; }
for grp in "01 02 03 04" "05 06 07 08" "09 10 11 12" "13 14 15 16" "17 18 19 20"; do for i in $grp; do run C$i & done; wait; done
