#!/bin/bash
# usage: verify_seed.sh <Cxx> <A|B>   -- confirms a seeded change in its scratch worktree $WT_ROOT/<Cxx> (default /tmp/wt):
#   demo passes without the change, fails with it; every BASELINE stable_pass test still passes with it.
pid=$1; lab=$2; root=${WT_ROOT:-/tmp/wt}; wt=$root/$pid; out=$root/${pid}_out; res=$out/verify_$lab.txt
cd $wt || exit 9
git checkout -q -- . ; git clean -fdq
export PYTHONPATH=$wt
echo "== $pid $lab" > $res
( cd $wt && timeout 900 /venv/bin/python $out/${lab}_demo.py > $out/demo_clean_$lab.log 2>&1 ); echo "demo_clean_exit=$?" >> $res
if ! git apply $out/$lab.diff 2>>$res; then echo "apply_failed" >> $res; exit 1; fi
( cd $wt && timeout 900 /venv/bin/python $out/${lab}_demo.py > $out/demo_seeded_$lab.log 2>&1 ); echo "demo_seeded_exit=$?" >> $res
( cd $wt && timeout 3000 /venv/bin/python -m pytest -ra -q -p no:cacheprovider --timeout=900 --continue-on-collection-errors --junitxml=$out/junit_$lab.xml > $out/pytest_$lab.log 2>&1 )
/venv/bin/python - $out/junit_$lab.xml >> $res <<'PY'
import json,sys,xml.etree.ElementTree as ET
b=json.load(open('/root/.vp/BASELINE.json'))
t=ET.parse(sys.argv[1]).getroot(); r={}
for tc in t.iter('testcase'):
    r[tc.get('classname')+'::'+tc.get('name')]=not any(c.tag in('failure','error','skipped') for c in tc)
miss=[n for n in b['stable_pass'] if not r.get(n)]
print('stable_pass_ok=%d/%d missing=%s'%(len(b['stable_pass'])-len(miss),len(b['stable_pass']),miss))
PY
git checkout -q -- . ; git clean -fdq
cat $res
