#!/bin/bash
# Run the pinned baseline suite on /repo (guard off; there are no hooks) and compare with BASELINE.json stable_pass
out=${1:-/tmp/baseline_junit.xml}
cd /repo && /venv/bin/python -m pytest -ra -q -p no:cacheprovider --timeout=900 --continue-on-collection-errors --junitxml=$out > /tmp/baseline.log 2>&1
/venv/bin/python - "$out" <<'PY'
import json,sys,xml.etree.ElementTree as ET
b=json.load(open('/root/.vp/BASELINE.json'))
t=ET.parse(sys.argv[1]).getroot()
res={}
for tc in t.iter('testcase'):
    name=tc.get('classname')+'::'+tc.get('name')
    ok=not any(c.tag in('failure','error','skipped') for c in tc)
    res[name]=ok
miss=[n for n in b['stable_pass'] if not res.get(n)]
print('stable_pass',len(b['stable_pass']),'now passing',sum(1 for n in b['stable_pass'] if res.get(n)),'missing',miss)
PY
