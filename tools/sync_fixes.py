"""Refresh the commit hashes of 'fixed' entries in known_findings.json from /repo's history (matched by commit subject)."""
import json, subprocess, re
log=[l.split(' ',1) for l in subprocess.check_output(['git','-C','/repo','log','--format=%h %s']).decode().strip().split('\n')]
k=json.load(open('/verif/known_findings.json'))
for e in k['findings']:
    if e.get('status')!='fixed': continue
    subj=e.get('subject')
    if not subj:
        # derive from the old hash if it still exists
        old=e['commit']
        m=[s for h,s in log if h.startswith(old) or old.startswith(h)]
        if m: subj=e['subject']=m[0]
        else:
            print('UNMATCHED', e['property'], e['commit'], e['line'][:80]); continue
    m=[h for h,s in log if s==subj]
    if not m: print('MISSING COMMIT for', subj); continue
    new=m[0]
    if new!=e['commit']:
        e['line']=e['line'].replace(e['commit'], new); e['commit']=new
json.dump(k,open('/verif/known_findings.json','w'),indent=1)
print('ok')
