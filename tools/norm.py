"""Developer aid: print the ast.unparse-normalised text of a repo file (what selftest variants match against), optionally grep."""
import ast, sys, warnings
warnings.simplefilter('ignore')
t=ast.unparse(ast.parse(open('/repo/'+sys.argv[1]).read()))
if len(sys.argv)>2:
    for i,l in enumerate(t.split('\n')):
        if any(w in l for w in sys.argv[2:]): print(repr(l))
else: print(t)
