"""Run every quick check against a patch applied to IN-MEMORY copies of the touched files (nothing in /repo changes,
so this can run while other work reads /repo).  A development tool; tools/seed_matrix.py is the one that applies
patches to /repo for real.
usage: tools/try_patch.py <patch.diff> [<patch.diff> ...] [--props C01,C02] [--json out.json]
prints, per patch, the obligations whose status differs from the unpatched tree."""
import json
import multiprocessing
import os
import re
import shutil
import subprocess
import sys
import tempfile
import warnings

sys.path.insert(0, os.path.dirname(os.path.dirname(os.path.abspath(__file__))))
warnings.filterwarnings('ignore')
from sa.index import Index  # noqa: E402
from sa.run import run_property  # noqa: E402
from sa.selftest import _statuses  # noqa: E402
from sa.report import VIOL, ERR  # noqa: E402

_G = {}


def overrides(root, pth):
    text = open(pth).read()
    rels = sorted(set(re.findall(r'^\+\+\+ b/(\S+)', text, flags=re.M)))
    tmp = tempfile.mkdtemp(prefix='sa-try-')
    try:
        for rel in rels:
            src = os.path.join(root, rel)
            os.makedirs(os.path.dirname(os.path.join(tmp, rel)), exist_ok=True)
            if os.path.exists(src):
                shutil.copy(src, os.path.join(tmp, rel))
        r = subprocess.run(['patch', '-p1', '-s', '-f', '-d', tmp, '-i', os.path.abspath(pth)], capture_output=True, text=True)
        if r.returncode != 0:
            return None, r.stdout + r.stderr
        return {rel: open(os.path.join(tmp, rel)).read() for rel in rels if rel.endswith('.py')}, ''
    finally:
        shutil.rmtree(tmp, ignore_errors=True)


_BASE = {}


def one(job):
    prop, ov = job
    ix = _G['ix']
    try:
        if prop not in _BASE:
            st0, R0 = run_property(prop, 'quick', quiet=True, base=ix, evidence=False)
            _BASE[prop] = _statuses(R0)
        base = _BASE[prop]
        st, R = run_property(prop, 'quick', overrides=ov, quiet=True, base=ix, evidence=False)
        now = _statuses(R)
    except Exception as e:  # noqa
        return prop, 'crash', ['%s: %s' % (type(e).__name__, e)]
    ch = []
    for k, v in now.items():
        if v in (VIOL, ERR) and base.get(k) != v:
            ch.append((v, k[0], k[1]))
    return prop, st, sorted(set(ch))


def _job(j):
    pth, p, ov = j
    return (pth,) + tuple(one((p, ov)))


def main():
    args = sys.argv[1:]
    props = ['C%02d' % i for i in range(1, 21)]
    out_json = None
    if '--props' in args:
        i = args.index('--props')
        props = args[i + 1].split(',')
        del args[i:i + 2]
    if '--json' in args:
        i = args.index('--json')
        out_json = args[i + 1]
        del args[i:i + 2]
    ix = Index()
    _G['ix'] = ix
    result = {}
    ctx = multiprocessing.get_context('fork')
    jobs = []
    ovs = {}
    for pth in args:
        ov, why = overrides(ix.root, pth)
        if ov is None:
            print('%s: does not apply: %s' % (pth, why.strip()[:200]))
            result[pth] = {'applies': False}
            continue
        bad = [rel for rel, txt in ov.items() if _compiles(txt, rel) is not None]
        if bad:
            print('%s: does not compile: %s' % (pth, bad))
        ovs[pth] = ov
        for p in props:
            jobs.append((pth, p))
    with ctx.Pool(16) as pool:
        res_all = pool.map(_job, [(pth, p, ovs[pth]) for pth, p in jobs], chunksize=1)
    for pth in args:
        if pth not in ovs:
            continue
        res = [r[1:] for r in res_all if r[0] == pth]
        viol = {p: [c for c in ch if c[0] == VIOL] for p, st, ch in res if st != 'crash'}
        err = {p: [c for c in ch if c[0] in (ERR, 'GONE')] for p, st, ch in res if st != 'crash'}
        crash = {p: ch for p, st, ch in res if st == 'crash'}
        v = {p: sorted({c[1] for c in cs}) for p, cs in viol.items() if cs}
        e = {p: sorted({c[1] for c in cs}) for p, cs in err.items() if cs}
        verdict = 'VIOLATION' if v else ('analysis-error' if e or crash else 'silent')
        print('%-40s %-14s viol=%s err=%s %s' % (pth[-40:], verdict, v, e, crash or ''))
        result[pth] = {'applies': True, 'verdict': verdict, 'violations': v, 'errors': e, 'crash': crash}
    if out_json:
        json.dump(result, open(out_json, 'w'), indent=1, sort_keys=True)


def _compiles(txt, rel):
    try:
        compile(txt, rel, 'exec')
    except SyntaxError as e:
        return str(e)
    return None


if __name__ == '__main__':
    main()
