"""Regenerate MANIFEST.json from the rule modules (run from /verif)."""
import importlib, json, os, sys
sys.path.insert(0, os.path.dirname(os.path.dirname(os.path.abspath(__file__))))
props = [json.loads(l) for l in open('properties.jsonl')]
checks, na = [], []
NA_REASONS = {}
for p in props:
    pid = p['id']
    if not os.path.exists('rules/%s.py' % pid):
        na.append({'property_id': pid, 'reason': NA_REASONS.get(
            pid, 'static checker for this property is not built yet in this '
                 'revision (planned in DESIGN.md section 4); no claim is made')})
        continue
    m = importlib.import_module('rules.' + pid)
    checks.append({
        'property_id': pid,
        'quick_cmd': '/venv/bin/python -m sa.run %s --tier quick' % pid,
        'thorough_cmd': '/venv/bin/python -m sa.run %s --tier thorough' % pid,
        'evidence_file': '/verif/evidence/%s.json' % pid,
        'replay_cmd_template': '/venv/bin/python -m sa.run %s --replay {path}' % pid,
        'engine': 'sa',
        'level_claimed': {
            'category': 'other',
            'text': getattr(m, 'LEVEL_TEXT', None) or (
                'Static rule conformance, not a proof of the behaviour: every '
                'structural clause of the property that is visible in the '
                'shape of the code is decided on all paths of the anchored '
                'functions from the syntax tree of the current /repo; '
                'numerical clauses are listed as not decided. ' + m.EXPLANATION),
            'design_ref': 'DESIGN.md section 4, ' + pid,
        },
        'level_note': 'Not decided: ' + '; '.join(m.NOT_DECIDED) +
                      '. Assumes: ' + '; '.join(m.ASSUMPTIONS),
        'technique': getattr(m, 'TECHNIQUE',
                             'static analysis: custom AST checker (forward '
                             'substitution + rational normal form, guard/loop '
                             'context, call-site argument roles)'),
    })
man = {
    'version': 1,
    'setup_cmd': 'true',
    'hooks': {
        'guard': 'UCL_EXOPLANETS_TAUREX3_PUBLIC_VERIF',
        'enable': 'none needed: static analysis reads /repo sources; no hook commits exist',
        'baseline_off_cmd': 'cd /repo && /venv/bin/python -m pytest -ra -q -p no:cacheprovider --timeout=900 --continue-on-collection-errors',
        'source_commits': [],
        'add_only': True,
    },
    'engines': [{
        'name': 'sa', 'path': '/verif/sa',
        'serves_properties': [c['property_id'] for c in checks],
        'kind_free_text': 'repository-specific static analyser over Python ast: '
                          'program index with MRO/CHA, forward substitution, '
                          'rational normal form comparison, guard regions, '
                          'effect/table extraction; self-test on in-memory source variants',
    }],
    'checks': checks,
    'not_applicable': na,
    'notes': 'All checks are static (no taurex import, no execution). Exit 0 ok / '
             '1 VIOLATION / 2 ANALYSIS-ERROR (anchor vanished or unrecognised shape). '
             'Known findings in known_findings.json; fixes are "fix:" commits in /repo.',
}
json.dump(man, open('MANIFEST.json', 'w'), indent=1)
print('checks', len(checks), 'not_applicable', len(na))
