"""Sensitivity sweep of one property's checker (a development tool, not a registered check).

For every function that carries an obligation of property P, systematic one-statement variants are generated
from the syntax tree and the quick check is re-run on each in memory (Index overrides; nothing is written to /repo,
nothing is executed).  A variant that leaves every obligation's status unchanged is a *survivor*: either the statement
is irrelevant to the property (logging, citations) or the checker has a blind spot there.  Survivors are printed for
triage.

operators:
  guard   wrap a simple statement in `if _SWEEP_:` (it may now be skipped)
  delete  replace a simple statement by `pass`
  early   insert `if _SWEEP_: return` before a simple statement (everything after it may be skipped)
  cmp     < <-> <=, > <-> >=, == <-> !=
  arith   + <-> -, * <-> /
  const   integer literal n -> n+1 (indices, offsets, exponents)
  bool    and <-> or, drop `not`
  args    swap the first two positional arguments of a call

usage: tools/sweep.py Cxx [--ops guard,delete,...] [--site substring] [--all]
"""
import argparse
import ast
import copy
import multiprocessing
import os
import sys
import warnings

sys.path.insert(0, os.path.dirname(os.path.dirname(os.path.abspath(__file__))))
from sa.index import Index  # noqa: E402
from sa.run import run_property  # noqa: E402
from sa.selftest import _statuses  # noqa: E402
from sa.report import OK, VIOL, ERR, KNOWN  # noqa: E402

LOGGING = {'info', 'debug', 'warning', 'error', 'critical', 'print', 'enableLogging', 'disableLogging'}
_G = {}


def is_logging(st):
    if isinstance(st, ast.Expr) and isinstance(st.value, ast.Call):
        f = st.value.func
        n = f.attr if isinstance(f, ast.Attribute) else getattr(f, 'id', '')
        return n in LOGGING
    return False


def is_doc(st):
    return isinstance(st, ast.Expr) and isinstance(st.value, ast.Constant) and isinstance(st.value.value, str)


def simple(st):
    return isinstance(st, (ast.Assign, ast.AugAssign, ast.AnnAssign, ast.Expr, ast.Return, ast.Raise, ast.Continue,
                           ast.Break, ast.Delete))


def variants(tree, fnode, ops):
    """yield (op, lineno, description, new_tree)"""
    # address statements / expressions by their index in ast.walk order of the function
    nodes = list(ast.walk(fnode))
    for i, n in enumerate(nodes):
        if isinstance(n, ast.stmt) and n is not fnode and simple(n) and not is_doc(n) and not is_logging(n):
            if 'guard' in ops and not isinstance(n, (ast.Continue, ast.Break)):
                yield ('guard', n.lineno, ast.unparse(n)[:90], ('guard', i))
            if 'delete' in ops and not isinstance(n, (ast.Return, ast.Raise)):
                yield ('delete', n.lineno, ast.unparse(n)[:90], ('delete', i))
            if 'early' in ops:
                yield ('early', n.lineno, 'if _SWEEP_: return  # before: ' + ast.unparse(n)[:70], ('early', i))
        # ---- behaviour-preserving operators (mode --equiv): every one of them must leave all statuses unchanged
        if 'hoist' in ops and isinstance(n, ast.If) and not isinstance(n.test, ast.Name):
            yield ('hoist', n.lineno, 'if ' + ast.unparse(n.test)[:80], ('hoist', i))
        if 'negif' in ops and isinstance(n, ast.If) and n.orelse and not (len(n.orelse) == 1 and isinstance(n.orelse[0], ast.If)):
            yield ('negif', n.lineno, 'if ' + ast.unparse(n.test)[:80], ('negif', i))
        if 'cmpflip' in ops and isinstance(n, ast.Compare) and len(n.ops) == 1 and type(n.ops[0]) in (ast.Lt, ast.LtE, ast.Gt, ast.GtE):
            yield ('cmpflip', n.lineno, ast.unparse(n)[:90], ('cmpflip', i))
        if 'mulswap' in ops and isinstance(n, ast.BinOp) and isinstance(n.op, ast.Mult) and not any(
                isinstance(x, (ast.List, ast.Tuple, ast.Constant)) and not isinstance(getattr(x, 'value', 0), (int, float))
                for x in (n.left, n.right)):
            yield ('mulswap', n.lineno, ast.unparse(n)[:90], ('mulswap', i))
        if 'unused' in ops and isinstance(n, ast.stmt) and n is not fnode and simple(n) and not is_doc(n):
            yield ('unused', n.lineno, '_unused = 0  # before: ' + ast.unparse(n)[:60], ('unused', i))
        if 'cmp' in ops and isinstance(n, ast.Compare) and len(n.ops) == 1:
            m = {ast.Lt: ast.LtE, ast.LtE: ast.Lt, ast.Gt: ast.GtE, ast.GtE: ast.Gt, ast.Eq: ast.NotEq,
                 ast.NotEq: ast.Eq}.get(type(n.ops[0]))
            if m:
                yield ('cmp', n.lineno, ast.unparse(n)[:90], ('cmp', i))
        if 'arith' in ops and isinstance(n, ast.BinOp) and type(n.op) in (ast.Add, ast.Sub, ast.Mult, ast.Div):
            if not (isinstance(n.left, ast.Constant) and isinstance(n.left.value, str)):
                yield ('arith', n.lineno, ast.unparse(n)[:90], ('arith', i))
        if 'const' in ops and isinstance(n, ast.Constant) and type(n.value) is int:
            yield ('const', n.lineno, ast.unparse(n)[:90], ('const', i))
        if 'bool' in ops and isinstance(n, ast.BoolOp):
            yield ('bool', n.lineno, ast.unparse(n)[:90], ('bool', i))
        if 'bool' in ops and isinstance(n, ast.UnaryOp) and isinstance(n.op, ast.Not):
            yield ('bool', n.lineno, ast.unparse(n)[:90], ('not', i))
        if 'args' in ops and isinstance(n, ast.Call) and len(n.args) >= 2 and not any(
                isinstance(a, ast.Starred) for a in n.args[:2]) and ast.unparse(n.args[0]) != ast.unparse(n.args[1]):
            f = n.func
            nm = f.attr if isinstance(f, ast.Attribute) else getattr(f, 'id', '')
            if nm not in LOGGING and nm != 'format':
                yield ('args', n.lineno, ast.unparse(n)[:90], ('args', i))


def local_names(fnode):
    params = {a.arg for a in fnode.args.args + fnode.args.kwonlyargs + fnode.args.posonlyargs}
    if fnode.args.vararg:
        params.add(fnode.args.vararg.arg)
    if fnode.args.kwarg:
        params.add(fnode.args.kwarg.arg)
    stored = set()
    glob = set()
    for n in ast.walk(fnode):
        if isinstance(n, ast.Name) and isinstance(n.ctx, ast.Store):
            stored.add(n.id)
        if isinstance(n, (ast.Global, ast.Nonlocal)):
            glob.update(n.names)
    # a name that is also a parameter of a nested function / lambda cannot be renamed by replacing Name nodes only
    inner = set()
    for n in ast.walk(fnode):
        if n is not fnode and isinstance(n, (ast.FunctionDef, ast.Lambda, ast.AsyncFunctionDef)):
            a = n.args
            inner.update(x.arg for x in a.args + a.kwonlyargs + a.posonlyargs)
    return sorted(stored - params - glob - inner)


def apply(tree, fpath, edit):
    """deep-copy the module, locate the function by its path of (field, index) and apply the edit"""
    t = copy.deepcopy(tree)
    f = t
    for fld, idx in fpath:
        f = getattr(f, fld)[idx]
    nodes = list(ast.walk(f))
    kind, i = edit
    n = nodes[i] if isinstance(i, int) else None
    if kind == 'rename':
        for x in ast.walk(f):
            if isinstance(x, ast.Name) and x.id == i:
                x.id = i + '_rn'
        return t
    if kind == 'rename':
        return None
    if kind in ('hoist', 'negif', 'unused'):
        n = nodes[i]
        for p in ast.walk(f):
            for fld in ('body', 'orelse', 'finalbody'):
                lst = getattr(p, fld, None)
                if isinstance(lst, list) and n in lst:
                    k = lst.index(n)
                    if kind == 'hoist':
                        lst.insert(k, ast.Assign(targets=[ast.Name(id='_hoisted_c', ctx=ast.Store())], value=n.test))
                        n.test = ast.Name(id='_hoisted_c', ctx=ast.Load())
                    elif kind == 'negif':
                        n.test = ast.UnaryOp(op=ast.Not(), operand=n.test)
                        n.body, n.orelse = n.orelse, n.body
                    else:
                        lst.insert(k, ast.Assign(targets=[ast.Name(id='_unused', ctx=ast.Store())], value=ast.Constant(value=0)))
                    ast.fix_missing_locations(t)
                    return t
        return None
    if kind == 'cmpflip':
        n = nodes[i]
        m = {ast.Lt: ast.Gt, ast.LtE: ast.GtE, ast.Gt: ast.Lt, ast.GtE: ast.LtE}
        n.left, n.comparators[0] = n.comparators[0], n.left
        n.ops = [m[type(n.ops[0])]()]
        return t
    if kind == 'mulswap':
        n = nodes[i]
        n.left, n.right = n.right, n.left
        return t
    if kind in ('guard', 'delete', 'early'):
        # find parent list
        for p in ast.walk(f):
            for fld in ('body', 'orelse', 'finalbody', 'handlers'):
                lst = getattr(p, fld, None)
                if isinstance(lst, list) and n in lst:
                    k = lst.index(n)
                    if kind == 'guard':
                        lst[k] = ast.If(test=ast.Name(id='_SWEEP_', ctx=ast.Load()), body=[n], orelse=[])
                    elif kind == 'early':
                        lst.insert(k, ast.If(test=ast.Name(id='_SWEEP_', ctx=ast.Load()),
                                             body=[ast.Return(value=None)], orelse=[]))
                    else:
                        lst[k] = ast.Pass()
                    ast.fix_missing_locations(t)
                    return t
        return None
    if kind == 'cmp':
        m = {ast.Lt: ast.LtE, ast.LtE: ast.Lt, ast.Gt: ast.GtE, ast.GtE: ast.Gt, ast.Eq: ast.NotEq, ast.NotEq: ast.Eq}
        n.ops = [m[type(n.ops[0])]()]
    elif kind == 'arith':
        m = {ast.Add: ast.Sub, ast.Sub: ast.Add, ast.Mult: ast.Div, ast.Div: ast.Mult}
        n.op = m[type(n.op)]()
    elif kind == 'const':
        n.value = n.value + 1
    elif kind == 'bool':
        n.op = ast.Or() if isinstance(n.op, ast.And) else ast.And()
    elif kind == 'not':
        # replace `not x` by `x`: need the parent
        for p in ast.walk(f):
            for fld, v in ast.iter_fields(p):
                if v is n:
                    setattr(p, fld, n.operand)
                    return t
                if isinstance(v, list) and n in v:
                    v[v.index(n)] = n.operand
                    return t
        return None
    elif kind == 'args':
        n.args[0], n.args[1] = n.args[1], n.args[0]
    return t


def func_paths(tree):
    """{id(node): path} for every function definition"""
    out = {}

    def rec(node, path):
        for fld in ('body',):
            lst = getattr(node, fld, None)
            if isinstance(lst, list):
                for k, c in enumerate(lst):
                    if isinstance(c, (ast.FunctionDef, ast.AsyncFunctionDef)):
                        out[(c.name, c.lineno)] = path + [(fld, k)]
                        rec(c, path + [(fld, k)])
                    elif isinstance(c, ast.ClassDef):
                        rec(c, path + [(fld, k)])
                    elif isinstance(c, (ast.If, ast.Try, ast.With, ast.For, ast.While)):
                        pass
    rec(tree, [])
    return out


def one(job):
    rel, fpath, op, line, desc, edit = job
    ix = _G['ix']
    tree = ix.modules[rel].tree
    t = apply(tree, fpath, edit)
    if t is None:
        return job, 'skip', ''
    try:
        src = ast.unparse(t)
        with warnings.catch_warnings():
            warnings.simplefilter('ignore')
            compile(src, rel, 'exec')
    except Exception as e:  # noqa
        return job, 'skip', str(e)
    try:
        st, R = run_property(_G['prop'], 'quick', overrides={rel: src}, quiet=True, base=ix, evidence=False)
    except Exception as e:  # noqa
        return job, 'crash', str(e)[:200]
    base = _G['base']
    now = _statuses(R)
    ch = sorted({k[0] for k, v in now.items() if base.get(k) != v} | {k[0] for k in base if k not in now})
    if not ch:
        return job, 'survived', ''
    worst = 'viol' if any(v == VIOL and base.get(k) != VIOL for k, v in now.items()) else 'error'
    return job, worst, ','.join(ch)[:160]


def main():
    ap = argparse.ArgumentParser()
    ap.add_argument('prop')
    ap.add_argument('--ops', default='guard,delete,cmp,arith,const,bool,args')
    ap.add_argument('--site', default='')
    ap.add_argument('--show', default=None)
    ap.add_argument('--equiv', action='store_true', help='behaviour-preserving operators; any changed status is a false alarm')
    args = ap.parse_args()
    ops = set(args.ops.split(','))
    if args.equiv:
        ops = {'rename', 'hoist', 'negif', 'cmpflip', 'mulswap', 'unused'}
        args.show = args.show or 'viol,error,crash'
    args.show = args.show or 'survived,error,crash'
    ix = Index()
    st, R = run_property(args.prop, 'quick', quiet=True, base=None, evidence=False)
    base = _statuses(R)
    sites = sorted({o.site for o in R.obls if '::' in o.site and args.site in o.site})
    _G.update(ix=ix, prop=args.prop, base=base)
    jobs = []
    seenf = set()
    for site in sites:
        try:
            f = ix.func(site)
        except Exception:  # noqa
            # class site: take all methods? skip
            continue
        rel = f.module.relpath
        key = (rel, f.node.name, f.node.lineno)
        if key in seenf:
            continue
        seenf.add(key)
        fp = func_paths(ix.modules[rel].tree).get((f.node.name, f.node.lineno))
        if fp is None:
            continue
        for op, line, desc, edit in variants(ix.modules[rel].tree, f.node, ops):
            jobs.append((rel, fp, op, line, '%s: %s' % (f.qualname, desc), edit))
        if 'rename' in ops:
            for nm in local_names(f.node):
                jobs.append((rel, fp, 'rename', f.node.lineno, '%s: local %s -> %s_rn' % (f.qualname, nm, nm), ('rename', nm)))
    print('%s: %d functions with obligations, %d variants' % (args.prop, len(seenf), len(jobs)))
    ctx = multiprocessing.get_context('fork')
    with ctx.Pool(16) as pool:
        res = pool.map(one, jobs, chunksize=4)
    tally = {}
    for job, verdict, info in res:
        tally[verdict] = tally.get(verdict, 0) + 1
    print('   ', tally)
    show = set(args.show.split(','))
    for job, verdict, info in sorted(res, key=lambda r: (r[0][0], r[0][3])):
        if verdict in show:
            rel, fp, op, line, desc, edit = job
            print('%-8s %-6s %s:%d  %s  %s' % (verdict, op, rel, line, desc, info))


if __name__ == '__main__':
    main()
