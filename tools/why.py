"""Print the non-OK obligations of one property with a patch applied in memory.
usage: tools/why.py <patch.diff> <Cxx> [<Cxx> ...]"""
import os, sys, warnings
sys.path.insert(0, os.path.dirname(os.path.dirname(os.path.abspath(__file__))))
warnings.filterwarnings('ignore')
from sa.index import Index
from sa.run import run_property
from sa.report import OK
from tools.try_patch import overrides
ix = Index()
ov, why = overrides(ix.root, sys.argv[1])
if ov is None:
    print('does not apply', why); sys.exit(2)
for prop in sys.argv[2:]:
    st0, R0 = run_property(prop, 'quick', quiet=True, base=ix, evidence=False)
    base = {(o.oid, o.site, o.statement): o.status for o in R0.obls}
    st, R = run_property(prop, 'quick', overrides=ov, quiet=True, base=ix, evidence=False)
    for o in R.obls:
        if o.status != OK and base.get((o.oid, o.site, o.statement)) != o.status:
            print('%s %s %s\n   :: %s\n   -> %s' % (o.status, o.oid, o.site, o.statement[:200], (o.detail or '')[:900]))
