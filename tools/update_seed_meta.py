"""Refresh seeded/<id>/meta.json "now_fires" (obligations reported as VIOLATION per property) and seeded/MATRIX.json/.md
from an in-memory run of every seeded patch (tools/try_patch.py; /repo is not touched).
usage: tools/update_seed_meta.py"""
import json, os, subprocess, sys
here = os.path.dirname(os.path.dirname(os.path.abspath(__file__)))
ids = sorted(d for d in os.listdir(here + '/seeded') if os.path.exists(here + '/seeded/%s/patch.diff' % d))
subprocess.run([sys.executable, here + '/tools/try_patch.py'] + [here + '/seeded/%s/patch.diff' % i for i in ids] +
               ['--json', '/tmp/seed_matrix_tmp.json'], capture_output=True, text=True)
res = json.load(open('/tmp/seed_matrix_tmp.json'))
out = {}
for k, v in res.items():
    sid = k.split('/')[-2]
    out[sid] = v
    mp = here + '/seeded/%s/meta.json' % sid
    m = json.load(open(mp))
    m['now_fires'] = v.get('violations', {})
    json.dump(m, open(mp, 'w'), indent=1)
json.dump(out, open(here + '/seeded/MATRIX.json', 'w'), indent=1, sort_keys=True)
n = 0
with open(here + '/seeded/MATRIX.md', 'w') as f:
    f.write('| seed | change | first answer | reported now as (quick tier, VIOLATION) |\n|---|---|---|---|\n')
    for sid in sorted(out):
        m = json.load(open(here + '/seeded/%s/meta.json' % sid))
        v = out[sid].get('violations', {})
        n += bool(v)
        f.write('| %s | %s | %s | %s |\n' % (sid, m.get('title', ''), m.get('first_result', ''),
                                         '; '.join(', '.join(x) for x in v.values()) or '**' + str(out[sid].get('verdict')) + '**'))
print('%d/%d seeded changes reported as violations' % (n, len(out)))
for sid in sorted(out):
    if not out[sid].get('violations'):
        print('  not reported:', sid, out[sid].get('verdict'), out[sid].get('errors'))
