"""Run every quick check against every behaviour-preserving change in /verif/benign (in memory, /repo untouched) and
write benign/MATRIX.json + benign/MATRIX.md.  Any VIOLATION here is a false alarm; an analysis error means the
checker could not follow the rewritten code (exit 2: not a pass, not a violation).
usage: tools/benign_matrix.py [id ...]"""
import json, os, subprocess, sys
here = os.path.dirname(os.path.dirname(os.path.abspath(__file__)))
ids = sys.argv[1:] or sorted(d for d in os.listdir(here + '/benign') if os.path.exists(here + '/benign/%s/patch.diff' % d))
out = here + '/benign/MATRIX.json'
r = subprocess.run([sys.executable, here + '/tools/try_patch.py'] + [here + '/benign/%s/patch.diff' % i for i in ids] +
                   ['--json', '/tmp/benign_matrix_tmp.json'], capture_output=True, text=True)
res = json.load(open('/tmp/benign_matrix_tmp.json'))
old = json.load(open(out)) if os.path.exists(out) and sys.argv[1:] else {}
for k, v in res.items():
    old[k.split('/')[-2]] = v
json.dump(old, open(out, 'w'), indent=1, sort_keys=True)
tally = {}
with open(here + '/benign/MATRIX.md', 'w') as f:
    f.write('| change | kind | title | verdict | obligations |\n|---|---|---|---|---|\n')
    for k in sorted(old):
        v = old[k]
        m = json.load(open(here + '/benign/%s/meta.json' % k))
        tally[v.get('verdict')] = tally.get(v.get('verdict'), 0) + 1
        ob = '; '.join(', '.join(x) for x in v.get('violations', {}).values()) or '; '.join(', '.join(x) for x in v.get('errors', {}).values())
        f.write('| %s | %s | %s | %s | %s |\n' % (k, m.get('kind', ''), str(m.get('title', ''))[:90], v.get('verdict'), ob))
print(tally)
for k in sorted(old):
    if old[k].get('verdict') != 'silent':
        print(k, old[k].get('verdict'), old[k].get('violations') or old[k].get('errors'))
