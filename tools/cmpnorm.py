"""Which files of the clean tree and of the corpus changes get a different syntax normal form under two versions of
sa/normalise.py (/tmp/normalise_old.py vs /tmp/normalise_new.py)?  A change to normalise.py can only move the verdicts of
the corpus changes listed here, so only those need a full re-run (used in DESIGN 17.2).
usage: cp sa/normalise.py /tmp/normalise_old.py; <edit a copy as /tmp/normalise_new.py>; tools/cmpnorm.py"""
import sys, os, ast, glob, importlib.util, copy, warnings
warnings.filterwarnings('ignore')
sys.path.insert(0,'/verif')
from tools.try_patch import overrides
def load(path, name):
    # load as a submodule of sa so relative imports work
    spec = importlib.util.spec_from_file_location('sa.'+name, path)
    m = importlib.util.module_from_spec(spec); m.__package__='sa'; spec.loader.exec_module(m); return m
import sa
old = load('/tmp/normalise_old.py','norm_old'); new = load('/tmp/normalise_new.py','norm_new')
def dump(mod, src):
    t = ast.parse(src); mod.normalise(t); return ast.dump(t)
diff = []
# the clean tree
for f in glob.glob('/repo/taurex/**/*.py', recursive=True):
    src = open(f).read()
    try:
        if dump(old, src) != dump(new, src): diff.append(('CLEAN', f))
    except SyntaxError: pass
for pth in sorted(glob.glob('/verif/seeded/*/patch.diff') + glob.glob('/verif/benign/*/patch.diff')):
    ov, why = overrides('/repo', pth)
    if ov is None: print('cannot apply', pth); continue
    for rel, src in ov.items():
        if dump(old, src) != dump(new, src): diff.append((pth, rel))
print(len(diff), 'differences'); [print(d) for d in diff]
